"""Minimal, independent msgpack reader (decoding only), stdlib only.

Written for the C20 check so that the bytes returned by the extension module are interpreted by
something that shares no code with rmp-serde or msgspec. Maps decode to dicts, arrays to lists,
bin to bytes, str to str.
"""
import struct


class MsgpackError(Exception):
    pass


def unpack(data: bytes):
    obj, pos = _read(data, 0)
    if pos != len(data):
        raise MsgpackError(f"trailing bytes: {len(data) - pos}")
    return obj


def _need(data, pos, n):
    if pos + n > len(data):
        raise MsgpackError("truncated")


def _read(data, pos):
    _need(data, pos, 1)
    b = data[pos]
    pos += 1
    if b <= 0x7F:
        return b, pos
    if b >= 0xE0:
        return b - 0x100, pos
    if 0x80 <= b <= 0x8F:
        return _read_map(data, pos, b & 0x0F)
    if 0x90 <= b <= 0x9F:
        return _read_array(data, pos, b & 0x0F)
    if 0xA0 <= b <= 0xBF:
        n = b & 0x1F
        _need(data, pos, n)
        return data[pos:pos + n].decode("utf-8"), pos + n
    if b == 0xC0:
        return None, pos
    if b == 0xC2:
        return False, pos
    if b == 0xC3:
        return True, pos
    if b in (0xC4, 0xC5, 0xC6):
        ln = {0xC4: 1, 0xC5: 2, 0xC6: 4}[b]
        _need(data, pos, ln)
        n = int.from_bytes(data[pos:pos + ln], "big")
        pos += ln
        _need(data, pos, n)
        return bytes(data[pos:pos + n]), pos + n
    if b == 0xCA:
        _need(data, pos, 4)
        return struct.unpack(">f", data[pos:pos + 4])[0], pos + 4
    if b == 0xCB:
        _need(data, pos, 8)
        return struct.unpack(">d", data[pos:pos + 8])[0], pos + 8
    if b in (0xCC, 0xCD, 0xCE, 0xCF):
        ln = {0xCC: 1, 0xCD: 2, 0xCE: 4, 0xCF: 8}[b]
        _need(data, pos, ln)
        return int.from_bytes(data[pos:pos + ln], "big", signed=False), pos + ln
    if b in (0xD0, 0xD1, 0xD2, 0xD3):
        ln = {0xD0: 1, 0xD1: 2, 0xD2: 4, 0xD3: 8}[b]
        _need(data, pos, ln)
        return int.from_bytes(data[pos:pos + ln], "big", signed=True), pos + ln
    if b in (0xD9, 0xDA, 0xDB):
        ln = {0xD9: 1, 0xDA: 2, 0xDB: 4}[b]
        _need(data, pos, ln)
        n = int.from_bytes(data[pos:pos + ln], "big")
        pos += ln
        _need(data, pos, n)
        return data[pos:pos + n].decode("utf-8"), pos + n
    if b in (0xDC, 0xDD):
        ln = 2 if b == 0xDC else 4
        _need(data, pos, ln)
        n = int.from_bytes(data[pos:pos + ln], "big")
        return _read_array(data, pos + ln, n)
    if b in (0xDE, 0xDF):
        ln = 2 if b == 0xDE else 4
        _need(data, pos, ln)
        n = int.from_bytes(data[pos:pos + ln], "big")
        return _read_map(data, pos + ln, n)
    raise MsgpackError(f"unsupported type byte 0x{b:02x}")


def _read_array(data, pos, n):
    out = []
    for _ in range(n):
        v, pos = _read(data, pos)
        out.append(v)
    return out, pos


def _read_map(data, pos, n):
    out = {}
    for _ in range(n):
        k, pos = _read(data, pos)
        v, pos = _read(data, pos)
        out[k if not isinstance(k, list) else tuple(k)] = v
    return out, pos

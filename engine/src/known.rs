//! Known findings (DESIGN 3.5): `/verif/known_findings.json`, read only, never written.
//! A violating input is attributed to an *open* finding iff the failed clause matches the
//! entry's `signature_regex` **and** the input matches its `input_regex`. `fixed` entries
//! suppress nothing.

use regex::Regex;
use std::sync::OnceLock;

pub struct Known {
    pub id: String,
    pub sig: Regex,
    pub input: Regex,
}

static KNOWN: OnceLock<Vec<Known>> = OnceLock::new();

pub fn load(path: &str) {
    let mut v = Vec::new();
    if let Ok(text) = std::fs::read_to_string(path) {
        if let Ok(doc) = serde_json::from_str::<serde_json::Value>(&text) {
            for e in doc["findings"].as_array().cloned().unwrap_or_default() {
                if e["status"].as_str() != Some("open") {
                    continue;
                }
                let (Some(id), Some(sig), Some(input)) =
                    (e["id"].as_str(), e["signature_regex"].as_str(), e["input_regex"].as_str())
                else {
                    eprintln!("known_findings: open entry without id/signature_regex/input_regex ignored");
                    continue;
                };
                match (Regex::new(sig), Regex::new(input)) {
                    (Ok(s), Ok(i)) => v.push(Known { id: id.to_string(), sig: s, input: i }),
                    _ => eprintln!("known_findings: bad regex in entry {id}, ignored"),
                }
            }
        }
    }
    let _ = KNOWN.set(v);
}

pub fn classify(sig: &str, input: &str) -> Option<&'static str> {
    let list = KNOWN.get()?;
    list.iter()
        .find(|k| k.sig.is_match(sig) && k.input.is_match(input))
        .map(|k| k.id.as_str())
}

//! Cross-build block digests (C18, C19) and the human readable dump used by replays.
use crate::canon::canon;
use crate::view::{run_lexer, Outcome};

pub fn print_dump(input: &str) {
    match run_lexer(input) {
        Outcome::Panic(m) => println!("lexer PANICKED: {m}"),
        Outcome::Refused(m) => println!("lexer refused: {m}"),
        Outcome::Ok(r) => {
            println!("verif: {:?}", r.verif);
            match std::panic::catch_unwind(std::panic::AssertUnwindSafe(|| canon(&r))) {
                Err(_) => println!("canonical dump panicked (buffer inconsistent)"),
                Ok(c) => {
                    for (i, t) in c.toks.iter().enumerate() {
                        let end = c.toks.get(i + 1).map_or(t.start, |n| n.start) as usize;
                        let txt = input.get(t.start as usize..end).unwrap_or("<bad range>");
                        println!(
                            "  tok {i:3} {:?}/{:?} bytes {}..{} chars {}..{} {}:{}-{}:{} {:?} {:?}",
                            t.ty, t.ch, t.start, end, t.cstart, t.cstop, t.line, t.col, t.end_line, t.end_col, t.payload, txt
                        );
                    }
                    for e in &r.errors {
                        println!(
                            "  err {:?} byte {} char {} {}:{} last_token {:?}",
                            e.error_kind(), e.at_byte_offset(), e.at_char_offset(), e.on_line(), e.at_column(),
                            e.last_token().map(|t| t.get())
                        );
                    }
                    println!("  literal buffer: {:?}", c.lits);
                }
            }
        }
    }
}

pub fn main(_args: &[String]) {
    unimplemented!()
}

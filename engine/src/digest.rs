//! Cross-build block digests (C18, C19), history and placement checks, and the human readable
//! dump used by replays.
//!
//! `digest`: every binary walks the same deterministic enumeration (space, level, chunk of
//! parent words) and writes one 64-bit FNV-1a digest per chunk over the canonical dumps of the
//! chunk's inputs. The driver diffs the lists of two builds; on a mismatch it asks both for the
//! per-input digests of that chunk (`digest-chunk`) and the first differing input is the witness.

use crate::canon::{canon, fnv1a, Canon};
use crate::explore::{hash64, Space};
use crate::spaces::{self, Tier};
use crate::view::{cfg_hash, run_lexer, Outcome};
use std::collections::HashMap;
use std::sync::atomic::{AtomicU64, Ordering};
use std::sync::Mutex;

pub const PANIC_DIGEST: u64 = 0xDEAD_0000_0000_0001;
pub const BUDGET_DIGEST: u64 = 0xDEAD_0000_0000_0002;
const CHUNK_PARENTS: u64 = 512;

pub fn print_dump(input: &str) {
    match run_lexer(input) {
        Outcome::Panic(m) => println!("lexer PANICKED: {m}"),
        Outcome::Refused(m) => println!("lexer refused: {m}"),
        Outcome::Ok(r) => {
            println!("verif: {:?}", r.verif);
            match std::panic::catch_unwind(std::panic::AssertUnwindSafe(|| canon(&r))) {
                Err(_) => println!("canonical dump panicked (buffer inconsistent)"),
                Ok(c) => {
                    for (i, t) in c.toks.iter().enumerate() {
                        let end = c.toks.get(i + 1).map_or(t.start, |n| n.start) as usize;
                        let txt = input.get(t.start as usize..end).unwrap_or("<bad range>");
                        println!(
                            "  tok {i:3} {:?}/{:?} bytes {}..{} chars {}..{} {}:{}-{}:{} {:?} {:?}",
                            t.ty, t.ch, t.start, end, t.cstart, t.cstop, t.line, t.col, t.end_line, t.end_col, t.payload, txt
                        );
                        if i > 400 {
                            println!("  ... ({} tokens)", c.toks.len());
                            break;
                        }
                    }
                    for e in &r.errors {
                        println!(
                            "  err {:?} byte {} char {} {}:{} last_token {:?}",
                            e.error_kind(),
                            e.at_byte_offset(),
                            e.at_char_offset(),
                            e.on_line(),
                            e.at_column(),
                            e.last_token().map(|t| t.get())
                        );
                    }
                    println!("  literal buffer: {:?}", c.lits);
                }
            }
        }
    }
}

fn arg_value(args: &[String], key: &str) -> Option<String> {
    args.iter().position(|a| a == key).and_then(|i| args.get(i + 1).cloned())
}

/// digest of one input under this build (`strip` removes MacroSep tokens first)
pub fn input_digest(src: &str, strip: bool, scratch: &mut Vec<u8>) -> u64 {
    input_digest_n(src, strip, scratch).0
}

/// (digest, number of tokens)
pub fn input_digest_n(src: &str, strip: bool, scratch: &mut Vec<u8>) -> (u64, usize) {
    match run_lexer(src) {
        Outcome::Ok(r) => {
            if r.verif.budget_exceeded {
                return (BUDGET_DIGEST, 0);
            }
            match std::panic::catch_unwind(std::panic::AssertUnwindSafe(|| canon(&r))) {
                Ok(c) => {
                    let c: Canon = if strip { c.strip_macro_sep() } else { c };
                    (c.digest(scratch), c.toks.len())
                }
                Err(_) => (PANIC_DIGEST, 0),
            }
        }
        _ => (PANIC_DIGEST, 0),
    }
}

fn decode(mut idx: u64, k: u64, n: usize, out: &mut Vec<u16>) {
    out.clear();
    out.resize(n, 0);
    for i in (0..n).rev() {
        out[i] = (idx % k) as u16;
        idx /= k;
    }
}

/// the inputs of chunk `c` of level `n` of a space, in order
fn for_chunk(space: &Space, n: usize, c: u64, mut f: impl FnMut(&str)) {
    let k = space.atoms.len() as u64;
    let mut buf = String::new();
    if n == 0 {
        buf.push_str(&space.prefix);
        buf.push_str(&space.suffix);
        f(&buf);
        return;
    }
    let parents = k.pow((n - 1) as u32);
    let mut word = Vec::new();
    for p in c * CHUNK_PARENTS..((c + 1) * CHUNK_PARENTS).min(parents) {
        decode(p, k, n - 1, &mut word);
        buf.clear();
        buf.push_str(&space.prefix);
        for &a in &word {
            buf.push_str(&space.atoms[a as usize]);
        }
        let plen = buf.len();
        for a in &space.atoms {
            buf.truncate(plen);
            buf.push_str(a);
            buf.push_str(&space.suffix);
            f(&buf);
        }
    }
}

fn chunks_of(space: &Space, n: usize) -> u64 {
    if n == 0 {
        1
    } else {
        let parents = (space.atoms.len() as u64).pow((n - 1) as u32);
        parents.div_ceil(CHUNK_PARENTS)
    }
}

pub fn digest_spaces(which: &str, tier: Tier) -> Vec<Space> {
    let names: Vec<&str> = which.split(',').collect();
    let mut v = spaces::sigma_spaces(&names, tier);
    // grammar programs as an explicit list are covered by the corpus list mode below
    v.retain(|s| !s.atoms.is_empty());
    v
}

pub fn main(args: &[String]) {
    let cmd = args.get(1).map(String::as_str).unwrap_or("");
    let tier = match arg_value(args, "--tier").as_deref() {
        Some("thorough") => Tier::Thorough,
        _ => Tier::Quick,
    };
    let strip = args.iter().any(|a| a == "--strip-sep");
    let which = arg_value(args, "--spaces").unwrap_or_else(|| "S1,S2,S3,S9".into());
    let sp = digest_spaces(&which, tier);
    let threads: usize = arg_value(args, "--threads").and_then(|s| s.parse().ok()).unwrap_or(16);
    match cmd {
        "digest" => {
            let out = arg_value(args, "--out").expect("--out");
            // work items
            let mut items: Vec<(usize, usize, u64)> = Vec::new();
            for (si, s) in sp.iter().enumerate() {
                for n in s.min_len..=s.max_len {
                    for c in 0..chunks_of(s, n) {
                        items.push((si, n, c));
                    }
                }
            }
            let next = AtomicU64::new(0);
            let results: Mutex<Vec<(usize, usize, u64, u64, u64, u64)>> = Mutex::new(Vec::with_capacity(items.len()));
            let total_inputs = AtomicU64::new(0);
            let distinct = crate::explore::Distinct::new(if tier == Tier::Quick { 28 } else { 33 });
            let distinct_nontrivial = AtomicU64::new(0);
            let t0 = std::time::Instant::now();
            std::thread::scope(|sc| {
                for _ in 0..threads {
                    sc.spawn(|| {
                        let mut scratch = Vec::new();
                        let mut local = Vec::new();
                        let mut cnt = 0u64;
                        loop {
                            let i = next.fetch_add(1, Ordering::Relaxed) as usize;
                            if i >= items.len() {
                                break;
                            }
                            let (si, n, c) = items[i];
                            let mut acc: Vec<u8> = Vec::new();
                            let mut k = 0u64;
                            let mut special = 0u64;
                            for_chunk(&sp[si], n, c, |input| {
                                let (d, ntok) = input_digest_n(input, strip, &mut scratch);
                                if d == PANIC_DIGEST || d == BUDGET_DIGEST {
                                    special += 1;
                                }
                                if ntok >= 3 && distinct.first_time(input) {
                                    distinct_nontrivial.fetch_add(1, Ordering::Relaxed);
                                }
                                acc.extend_from_slice(&d.to_le_bytes());
                                k += 1;
                            });
                            cnt += k;
                            local.push((si, n, c, fnv1a(&acc), k, special));
                        }
                        total_inputs.fetch_add(cnt, Ordering::Relaxed);
                        results.lock().unwrap().extend(local);
                    });
                }
            });
            let mut res = results.into_inner().unwrap();
            res.sort_unstable();
            let mut text = String::new();
            for (si, n, c, d, k, special) in &res {
                text.push_str(&format!("{}\t{}\t{}\t{:016x}\t{}\t{}\n", sp[*si].name, n, c, d, k, special));
            }
            std::fs::write(&out, text).expect("write digests");
            println!(
                "lexmc digest spaces={} chunks={} inputs={} distinct_nontrivial={} wall={:.1}s",
                which,
                res.len(),
                total_inputs.load(Ordering::Relaxed),
                distinct_nontrivial.load(Ordering::Relaxed),
                t0.elapsed().as_secs_f64()
            );
        }
        "digest-chunk" => {
            let name = arg_value(args, "--space").expect("--space");
            let n: usize = arg_value(args, "--level").and_then(|s| s.parse().ok()).expect("--level");
            let c: u64 = arg_value(args, "--chunk").and_then(|s| s.parse().ok()).expect("--chunk");
            let space = sp.iter().find(|s| s.name == name).expect("space");
            let mut scratch = Vec::new();
            for_chunk(space, n, c, |input| {
                let d = input_digest(input, strip, &mut scratch);
                println!("{:016x}\t{}", d, serde_json::to_string(input).unwrap());
            });
        }
        "digest-list" => {
            // one digest per line for the inputs of a JSON array file
            let path = arg_value(args, "--inputs").expect("--inputs");
            let inputs: Vec<String> = serde_json::from_str(&std::fs::read_to_string(path).expect("read")).expect("json");
            let mut scratch = Vec::new();
            for i in &inputs {
                // (prefixed: the lexer's own debug diagnostics also go to stdout)
                println!("D:{:016x}", input_digest(i, strip, &mut scratch));
            }
        }
        "scale-inputs" => {
            // a fixed list (the same in every build) of long inputs: every core atom x 300 and the
            // scale words x {257, 4100}, bare and closed; plus all generated programs of depth 2
            let mut v: Vec<String> = Vec::new();
            for a in spaces::s9_core() {
                v.push(a.repeat(300));
            }
            for w in crate::props::SCALE_WORDS {
                for k in [40usize, 41, 257, 4100] {
                    v.push(w.repeat(k));
                    v.push(format!("{}{}", w.repeat(k), ";\n)'\";\n"));
                }
            }
            for (p, w, s) in crate::props::SCALE_CTX {
                for k in [4usize, 5, 9, 33, 41, 257] {
                    v.push(format!("{p}{}{s}", w.repeat(k)));
                }
            }
            v.extend(crate::grammar::programs(2, true));
            println!("{}", serde_json::to_string(&v).unwrap());
        }
        "history-inputs" => {
            let n: usize = arg_value(args, "--count").and_then(|s| s.parse().ok()).unwrap_or(200);
            println!("{}", serde_json::to_string(&history_inputs(n)).unwrap());
        }
        "history" => {
            // all ordered pairs (x, y): lex(x) then lex(y) on this thread; dump(y) must equal the
            // digest a fresh process computed for y (refs). Then the same inputs on 16 OS threads
            // running freely (a sample of schedules, labelled as such by the driver).
            let inputs: Vec<String> =
                serde_json::from_str(&std::fs::read_to_string(arg_value(args, "--inputs").expect("--inputs")).expect("read")).expect("json");
            let refs: Vec<String> =
                serde_json::from_str(&std::fs::read_to_string(arg_value(args, "--refs").expect("--refs")).expect("read")).expect("json");
            let refs: Vec<u64> = refs.iter().map(|r| u64::from_str_radix(r, 16).expect("hex")).collect();
            assert_eq!(inputs.len(), refs.len());
            let mut scratch = Vec::new();
            let mut pairs = 0u64;
            let mut bad: Vec<(String, String)> = Vec::new();
            for (i, x) in inputs.iter().enumerate() {
                for (j, y) in inputs.iter().enumerate() {
                    let _ = input_digest(x, strip, &mut scratch);
                    let d = input_digest(y, strip, &mut scratch);
                    pairs += 1;
                    if d != refs[j] && bad.len() < 5 {
                        bad.push((x.clone(), y.clone()));
                    }
                    let _ = i;
                }
            }
            // free running threads
            let conc_bad: Mutex<Vec<String>> = Mutex::new(Vec::new());
            let runs = AtomicU64::new(0);
            std::thread::scope(|sc| {
                for t in 0..threads {
                    let inputs = &inputs;
                    let refs = &refs;
                    let conc_bad = &conc_bad;
                    let runs = &runs;
                    sc.spawn(move || {
                        let mut scratch = Vec::new();
                        let n = inputs.len();
                        for round in 0..8usize {
                            for k in 0..n {
                                let j = (k * (2 * t + 1) + round * 7 + t) % n;
                                let d = input_digest(&inputs[j], strip, &mut scratch);
                                runs.fetch_add(1, Ordering::Relaxed);
                                if d != refs[j] {
                                    let mut b = conc_bad.lock().unwrap();
                                    if b.len() < 5 {
                                        b.push(inputs[j].clone());
                                    }
                                }
                            }
                        }
                    });
                }
            });
            // contention: 16 threads hammering tiny inputs whose characters are classified
            // differently (name start or not, blank or not, ASCII or not), each thread starting
            // at a different one: a shared cache or table behind the classification helpers shows
            // up as a wrong token within a few thousand rounds (sampling, labelled as such)
            let cont: Vec<String> = [
                "\u{e9} = 1;", "a \u{ac}= b;", "\u{ac}\u{e9}", "%\u{e9}(1)", "$\u{e9}.", "\u{a0}x", "x\u{3000}", "\u{436};", "'\u{e9}'n", "0ffx",
                "1e5", "%let a=\u{e9};", "&\u{e9}.", "\u{b7}", "\u{663}", "_\u{e9}", "%eval(\u{e9} eq 1)", "%put \u{ac};", "a\u{301}", "\u{200b}",
            ]
            .iter()
            .map(|s| (*s).to_string())
            .collect();
            let cont_refs: Vec<u64> = cont.iter().map(|c| input_digest(c, strip, &mut scratch)).collect();
            let cont_runs = AtomicU64::new(0);
            std::thread::scope(|sc| {
                for t in 0..threads {
                    let (cont, cont_refs, conc_bad, cont_runs) = (&cont, &cont_refs, &conc_bad, &cont_runs);
                    sc.spawn(move || {
                        let mut scratch = Vec::new();
                        let n = cont.len();
                        for round in 0..4000usize {
                            let j = (round + t * 5) % n;
                            let d = input_digest(&cont[j], strip, &mut scratch);
                            cont_runs.fetch_add(1, Ordering::Relaxed);
                            if d != cont_refs[j] {
                                let mut b = conc_bad.lock().unwrap();
                                if b.len() < 5 {
                                    b.push(cont[j].clone());
                                }
                            }
                        }
                    });
                }
            });
            // Same-storage histories: every ordered pair of *equal-layout* words, lexed one after
            // the other out of one reused buffer, so that the second source lies at the address of
            // the first, has its length and has its constructs at the same offsets. A cache keyed by
            // position, address or length instead of content answers for the wrong text here. Atoms
            // are padded to one width; words of the same atom count have the same layout. The
            // reference for a word is its digest on a fresh thread.
            const W: usize = 8;
            let eq_atoms: &[&str] = &[
                "%if", "%then", "%m(1)", "%n", "&v", "1", "a", "%put x;", "%do i=", "%to", "%eval(", ")", ";", "%let a=", "=", "*", "x=1;", "'a'",
            ];
            let levels = if args.iter().any(|a| a == "--deep") { 3 } else { 2 };
            let mut words: Vec<Vec<String>> = vec![Vec::new(); levels + 1];
            for n in 1..=levels {
                let k = eq_atoms.len();
                for idx in 0..k.pow(n as u32) {
                    let mut w = String::new();
                    let mut r = idx;
                    for _ in 0..n {
                        w.push_str(&format!("{:<W$}", eq_atoms[r % k]));
                        r /= k;
                    }
                    words[n].push(w);
                }
            }
            // three-atom words over the macro-expression atoms only (quick tier keeps the product small)
            if levels == 2 {
                let sub: Vec<&str> = eq_atoms.iter().copied().filter(|a| a.starts_with('%') || matches!(*a, "1" | "&v" | "a" | ";")).collect();
                let k = sub.len();
                let mut v = Vec::new();
                for idx in 0..k.pow(3) {
                    let mut w = String::new();
                    let mut r = idx;
                    for _ in 0..3 {
                        w.push_str(&format!("{:<W$}", sub[r % k]));
                        r /= k;
                    }
                    v.push(w);
                }
                words.push(v);
            }
            let same_pairs = AtomicU64::new(0);
            let same_bad: Mutex<Vec<(String, String)>> = Mutex::new(Vec::new());
            for group in words.iter().filter(|g| !g.is_empty()) {
                let grefs: Vec<u64> = std::thread::scope(|sc| {
                    let hs: Vec<_> = group
                        .chunks(group.len().div_ceil(threads).max(1))
                        .map(|ch| {
                            sc.spawn(move || {
                                ch.iter()
                                    .map(|w| {
                                        // one fresh thread per word: no history at all
                                        std::thread::scope(|s2| s2.spawn(|| input_digest(w, strip, &mut Vec::new())).join().unwrap())
                                    })
                                    .collect::<Vec<u64>>()
                            })
                        })
                        .collect();
                    hs.into_iter().flat_map(|h| h.join().unwrap()).collect()
                });
                let next = AtomicU64::new(0);
                std::thread::scope(|sc| {
                    for _ in 0..threads {
                        let (group, grefs, next, same_pairs, same_bad) = (group, &grefs, &next, &same_pairs, &same_bad);
                        sc.spawn(move || {
                            let mut scratch = Vec::new();
                            let mut buf = String::with_capacity(group[0].len() + 16);
                            loop {
                                let i = next.fetch_add(1, Ordering::Relaxed) as usize;
                                if i >= group.len() {
                                    break;
                                }
                                for (j, y) in group.iter().enumerate() {
                                    buf.clear();
                                    buf.push_str(&group[i]);
                                    let _ = input_digest(&buf, strip, &mut scratch);
                                    buf.clear();
                                    buf.push_str(y);
                                    let d = input_digest(&buf, strip, &mut scratch);
                                    same_pairs.fetch_add(1, Ordering::Relaxed);
                                    if d != grefs[j] {
                                        let mut b = same_bad.lock().unwrap();
                                        if b.len() < 5 {
                                            b.push((group[i].clone(), y.clone()));
                                        }
                                    }
                                }
                            }
                        });
                    }
                });
            }
            let doc = serde_json::json!({
                "inputs": inputs.len(),
                "same_storage_pairs": same_pairs.load(Ordering::Relaxed),
                "same_storage_mismatches": same_bad.into_inner().unwrap(),
                "contention_lexer_runs": cont_runs.load(Ordering::Relaxed),
                "ordered_pairs": pairs,
                "pair_mismatches": bad,
                "free_running_threads": threads,
                "free_running_lexer_runs": runs.load(Ordering::Relaxed),
                "free_running_mismatches": conc_bad.into_inner().unwrap(),
            });
            println!("{}", serde_json::to_string(&doc).unwrap());
        }
        _ => unreachable!(),
    }
}

// ---------------------------------------------------------------------------------------------
// C19 part 2: histories. lex(x) then lex(y) on one thread must give for y the dump a fresh
// process gives.

pub fn history_inputs(count: usize) -> Vec<String> {
    // shortest representative of each of the most frequent end configurations of S1 u S2 (N = 3)
    let mut seen: HashMap<u64, (u64, String)> = HashMap::new();
    for base in [spaces::S1, spaces::S2, spaces::S4, spaces::S5_CORE, spaces::S7] {
        let space = Space::new("h", base, 3);
        for n in 0..=3usize {
            for c in 0..chunks_of(&space, n) {
                for_chunk(&space, n, c, |input| {
                    if let Outcome::Ok(r) = run_lexer(input) {
                        let h = cfg_hash(&r);
                        let e = seen.entry(h).or_insert((0, input.to_string()));
                        e.0 += 1;
                        if (input.len(), input) < (e.1.len(), e.1.as_str()) {
                            e.1 = input.to_string();
                        }
                    }
                });
            }
        }
    }
    let mut v: Vec<(u64, String)> = seen.into_values().collect();
    v.sort_by(|a, b| b.0.cmp(&a.0).then(a.1.cmp(&b.1)));
    let mut out: Vec<String> = v.into_iter().take(count).map(|x| x.1).collect();
    // plus inputs that exercise the lazily used tables and the literal buffer
    for s in [
        "data a; x='a''b'; run;",
        "%macro m(a,b=1); %let x=%eval(&a+1); %mend;",
        "datalines4;\n1 2\n;;;;",
        "x=0ffx; y=1e5; z='41'x;",
        "%put %sysfunc(f(1.5,2),best.);",
        "\u{feff}é='€';",
        "* c;",
        "*;",
        "x",
        "x y",
        "&mv",
        "proc print data=a",
        "%macro m;",
        "%do;",
        "'unterminated",
        "\"&v",
        "/* open",
        "%m(",
        "datalines;",
    ] {
        out.push(s.to_string());
    }
    // long literals of every scanner, each in a form that ends well and in a form that fails part
    // way (a scanner that switches to reusable scratch storage above a size threshold and returns
    // early on an error leaves the storage dirty for the next call on the thread)
    let rep = |u: &str, k: usize| u.repeat(k);
    for (ok, bad) in [
        (format!("x='{}'x;", rep("53415320", 12)), format!("x='{}4O'x;", rep("53415320", 12))),
        (format!("x=\"{}\"x;", rep("4C,45,", 30) + "58"), format!("x=\"{}\"x;", rep("4C,45,", 30) + "5")),
        (format!("x='{}';", rep("it''s ", 40)), format!("x='{}", rep("it''s ", 40))),
        (format!("x=\"{}\";", rep("a\"\"b&v. ", 30)), format!("x=\"{}", rep("a\"\"b&v. ", 30))),
        (format!("x={};", rep("12345678", 12)), format!("x={}e;", rep("12345678", 12))),
        (format!("x=0{}x;", rep("f", 15)), format!("x=0{}x;", rep("f", 70))),
        (format!("%let a=%str({});", rep("%'a%)", 40)), format!("%let a=%str({}", rep("%'a%)", 40))),
        (format!("{}=1;", rep("name_", 6)), format!("{}=1;", rep("name_\u{e9}", 30))),
        (format!("%put &{}.;", rep("v", 32)), format!("%put {}", rep("&", 300))),
        (format!("/*{}*/", rep("c ", 200)), format!("/*{}", rep("c ", 200))),
        (format!("datalines;\n{}\n;", rep("1 2 3\n", 60)), format!("datalines;\n{}", rep("1 2 3\n", 60))),
    ] {
        out.push(ok);
        out.push(bad);
    }
    out.sort();
    out.dedup();
    let _ = hash64(&0u8);
    out
}

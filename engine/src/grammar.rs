//! Construct grammar G (DESIGN 4.6): generators and oracles for C12 (well-formed programs),
//! C13 (delimiter map) and C14 (single mandatory-delimiter deletions).

use crate::explore::{hash64, Explorer, Local, Report, Visit};
use crate::props::{Config, PropRun};
use crate::spaces::Tier;
use crate::view::{cfg_hash, cfg_of, is_closed, run_lexer, Outcome, View};
use sas_lexer::error::ErrorKind as E;
use sas_lexer::{LexResult, Payload, TokenChannel as Ch, TokenType as T};
use std::collections::BTreeMap;

// =============================================================================================
// C12: chains of typed contexts

/// gap marker inside templates: a place where SAS ignores blanks and comments
const GAP: char = '~';
/// the last filler is a run of 66 hidden tokens: longer than any bounded look-behind window
pub const FILLERS: &[&str] = &["", " ", " /*c*/\n", "/*a*//*b*/", "/*c*/ ", "/*c*/ /*c*/ /*c*/ /*c*/ /*c*/ /*c*/ /*c*/ /*c*/ /*c*/ /*c*/ /*c*/ /*c*/ /*c*/ /*c*/ /*c*/ /*c*/ /*c*/ /*c*/ /*c*/ /*c*/ /*c*/ /*c*/ /*c*/ /*c*/ /*c*/ /*c*/ /*c*/ /*c*/ /*c*/ /*c*/ /*c*/ /*c*/ /*c*/ ", "\u{a0}", "\u{b}"];

/// (own type, template with one `{}` hole, hole type)
/// types: S statement, T macro text, O open-code value, E integer expression operand,
/// F float expression operand, A call argument value, Q inside double quotes, N %nrstr text,
/// V macro variable name position
const CONTEXTS: &[(char, &str, char)] = &[
    ('S', "%macro m~;~{} %mend~;", 'S'),
    ('S', "%macro m~(~a~,~b~=~1~)~/~des=\"x\"~;~{} %mend m~;", 'S'),
    // names of exactly the maximal SAS length (32)
    ('S', "%macro n2345678901234567890123456789012~(~p2345678901234567890123456789012~=~1~,~q2345678901234567890123456789012~)~;~{} %mend n2345678901234567890123456789012~;", 'S'),
    ('S', "%do~;~{} %end~;", 'S'),
    ('S', "%do i=1 %to 3~;~{} %end;", 'S'),
    ('S', "%do i~=~1 %to 9 %by 2;~{} %end;", 'S'),
    ('S', "%do %v=1 %to 3;~{} %end;", 'S'),
    ('S', "%do &v.i~=~1 %to 3;~{} %end;", 'S'),
    ('S', "%do i&j=1 %to 3;~{} %end;", 'S'),
    ('S', "%do {}~=~1 %to 3~; %end;", 'V'),
    ('S', "%do %while~(~&i<3~)~;~{} %end;", 'S'),
    ('S', "%do %until~(~&i ge 3~)~;~{} %end~;", 'S'),
    ('S', "%if &a %then~%do~;~{} %end;", 'S'),
    ('S', "%if &a=1 %then %do; %end;~%else~%do~;~{} %end;", 'S'),
    ('S', "data a;~{} run;", 'S'),
    ('S', "%let a~=~{};", 'T'),
    ('S', "%put {}~;", 'T'),
    ('S', "x~=~{}~;", 'O'),
    ('S', "%m~(~{}~)~;", 'A'),
    ('S', "%m(a~=~{});", 'A'),
    ('S', "%m(1,~{});", 'A'),
    ('S', "%if ~{}~%then~%put a;", 'E'),
    ('S', "%do i=~{} %to 5; %end;", 'E'),
    ('S', "%do i=1 %to ~{}; %end;", 'E'),
    ('S', "%do %while~(~{}~)~; %end;", 'E'),
    ('S', "y=\"{}\";", 'Q'),
    ('S', "%let b=\"{}\";", 'Q'),
    ('S', "%let {}=1;", 'V'),
    ('S', "%global {}~;", 'V'),
    ('S', "%local~/~readonly ~{}~=~1~;", 'V'),
    ('S', "%global /~readonly {}=a b;", 'V'),
    ('T', "%eval~(~{}~)", 'E'),
    ('T', "%sysevalf~(~{}~)", 'F'),
    ('T', "%sysevalf({}~,~ceil)", 'F'),
    ('T', "%upcase~(~{})", 'A'),
    ('T', "%scan(~{},~1~)", 'A'),
    ('T', "%scan(a b~,~{}~)", 'E'),
    ('T', "%scan(a b,~1,~{})", 'A'),
    ('T', "%substr(abc,~{}~,~1~)", 'E'),
    ('T', "%sysfunc~(~f~(~{}))", 'F'),
    ('T', "%sysfunc(f(1~,~{})~,~best.~)", 'F'),
    ('T', "%qsysfunc(f({}))", 'F'),
    ('T', "%str({})", 'T'),
    ('T', "%nrstr({})", 'N'),
    ('T', "%m(~{})", 'A'),
    ('T', "%m(k~=~{})", 'A'),
    ('T', "\"{}\"", 'Q'),
    ('T', "%index(~{},b)", 'A'),
    ('T', "%length(~{})", 'A'),
    ('T', "%unquote(~{})", 'A'),
    ('T', "%bquote(~{})", 'A'),
    ('T', "%lowcase(~{})", 'A'),
    ('T', "%left(~{})", 'A'),
    ('T', "%qscan(~{},~2,~%str( ))", 'A'),
    ('T', "%verify(~{},~abc)", 'A'),
    ('E', "({})", 'E'),
    ('E', "{}+1", 'E'),
    ('E', "1 eq {}", 'E'),
    ('E', "not {}", 'E'),
    ('E', "{} and 1", 'E'),
    ('E', "{} in 1 2", 'E'),
    ('A', "({})", 'A'),
    // macro statements inside the argument of a user macro call and inside an open-code string,
    // followed by more of the same open-code statement
    ('S', "%m(a%do;~{} %end;);", 'A'),
    ('S', "x=%m(%do;{}%end;) * 'a;b';", 'A'),
    ('S', "y=\"a%do; {} %end;\" * 2;", 'Q'),
    ('S', "x={} * 'a;b';", 'O'),
    ('A', "a {}", 'A'),
    ('A', "{},b", 'A'),
    // a parenthesis group around a hole, and a hole followed by one more section boundary
    // (macro variable, quoted literal, comment, nested call): with a hole that itself ends in a
    // boundary this gives groups whose '(' and ')' lie in different sections of the text scanners
    ('T', "({})", 'T'),
    ('T', "({}) &w", 'T'),
    ('T', "({}) %n(p) z", 'T'),
    ('T', "({})/*d*/ 'r'", 'T'),
    ('A', "({}) &w", 'A'),
    ('A', "({})/*d*/ \"r\"", 'A'),
    ('N', "({})", 'N'),
    ('N', "({})/*d*/ 'r'", 'N'),
    ('N', "({}) \"r\" z", 'N'),
    ('Q', "a{}b", 'Q'),
    ('Q', "{}", 'T'),
    ('V', "&p{}", 'V'),
];

const LEAVES: &[(char, &[&str])] = &[
    (
        'S',
        &[
            "x=1;", "%put a;", "%let a=1;", "* c;", "/*c*/", "%m;", "%m(1)", "run;", "%return;", "%local a b;",
            "%goto l;", "datalines;\n1 2\n;", "cards4;\na;b\n;;;;", "* it's c;", "x='a''b' \"c;d\";", "format x $char8. y 8.2;",
            "%put %str(;) %nrstr(%mend;);",
            // statement-options text directly followed by a quoted literal that contains ';' '=' '/'
            "%* \"it's\" c;", "%* 'a\"b';",
            "%global a'b;c';", "%symdel a'b=c/d;e' / nowarn;", "%macro q(p) / des=x'a;b=c' store; %mend;", "%local a\"b;c\";",
            // a lone '%' at the end of a text segment of a statement value
            "%put &v%;", "%let a=50%;", "%put 'a'%;", "%let b=&v%\n;", "%put %m()% a;",
        ],
    ),
    ('T', &["a", "1", "&v", "&v.x", "&&v&i", "a b", "%m", "'s'", ""]),
    ('O', &["a", "1", "&v", "'s'", "a b"]),
    ('E', &["1", "&v", "a", "%m(1)", "'s'"]),
    ('F', &["1", "&v", "a", "%m(1)", "'s'", "1.5"]),
    ('A', &["a", "&v", "a b", "(1,2)", "'a,b'", ""]),
    ('Q', &["a", "&v", "&v.x", "%m(1)", " ", ""]),
    ('N', &["a", "%let x=1;", "&v", "a,b", "'q'", "/*c*/", "\"q\" x"]),
    (
        'V',
        &[
            "a", "_a", "_", "&v", "&&v&i", "a&i", "v2345678901234567890123456789012", "%m()", "%m()1", "a%m()", "%sysfunc(f())", "%sysfunc(f())9",
            "%m()&v", "%m&v", "%m%n()", "%m&v.x", "%m", "%m%n",
        ],
    ),
];

/// which context types may fill a hole of type `hole`
fn fills(own: char, hole: char) -> bool {
    own == hole
        || matches!((own, hole), ('E', 'F') | ('T', 'A') | ('T', 'E') | ('T', 'F') | ('T', 'O'))
}

/// hole type of context `c` when it sits in a hole of type `outer` (float-ness is inherited by
/// expression contexts)
fn inner_hole(c: &(char, &str, char), outer: char) -> char {
    if c.0 == 'E' && outer == 'F' && c.2 == 'E' {
        'F'
    } else {
        c.2
    }
}

fn leaves(t: char) -> &'static [&'static str] {
    LEAVES.iter().find(|(k, _)| *k == t).map_or(&[], |(_, v)| v)
}

const TYPES: &[char] = &['S', 'T', 'O', 'E', 'F', 'A', 'Q', 'N', 'V'];

/// all chains of depth <= d for every hole type (templates still carry the gap marker)
fn chains(d: usize) -> BTreeMap<char, Vec<String>> {
    let mut cur: BTreeMap<char, Vec<String>> = BTreeMap::new();
    for t in TYPES {
        cur.insert(*t, leaves(*t).iter().map(|s| (*s).to_string()).collect());
    }
    for _ in 0..d {
        let mut next: BTreeMap<char, Vec<String>> = BTreeMap::new();
        for t in TYPES {
            let mut v: Vec<String> = leaves(*t).iter().map(|s| (*s).to_string()).collect();
            for c in CONTEXTS {
                if !fills(c.0, *t) {
                    continue;
                }
                let h = inner_hole(c, *t);
                for inner in &cur[&h] {
                    v.push(c.1.replacen("{}", inner, 1));
                }
            }
            next.insert(*t, v);
        }
        cur = next;
    }
    cur
}

fn apply_filler(tmpl: &str, filler: &str, out: &mut String) {
    for ch in tmpl.chars() {
        if ch == GAP {
            out.push_str(filler);
        } else {
            out.push(ch);
        }
    }
}

/// the rare-context programs (every rarely used statement / built-in argument position, both
/// leaf sets) with one gap filler applied
pub fn rare_programs(filler: &str) -> Vec<String> {
    let mut t = rare_templates(1);
    t.extend(rare_leaf_templates());
    let mut v: Vec<String> = t
        .iter()
        .map(|x| {
            let mut s = String::new();
            apply_filler(x, filler, &mut s);
            s
        })
        .collect();
    v.sort();
    v.dedup();
    v
}

/// statement-level programs of depth <= d (used by C15 as closed prefixes)
pub fn programs(d: usize, with_fillers: bool) -> Vec<String> {
    let ch = chains(d);
    let mut v = Vec::new();
    for p in &ch[&'S'] {
        // (without the long hidden run: these programs are cut at every character)
        let fillers: &[&str] = if with_fillers { &FILLERS[..5] } else { &[""] };
        for f in fillers {
            let mut s = String::new();
            apply_filler(p, f, &mut s);
            v.push(s);
        }
    }
    v.sort();
    v.dedup();
    v
}

pub fn c12_check(src: &str, r: &LexResult) -> Vec<String> {
    let mut out = Vec::new();
    if let Some(e) = r.errors.first() {
        out.push(format!("wellformed.error:{:?}", e.error_kind()));
    }
    if !is_closed(r) {
        let e = &r.verif.end;
        let what = if e.mode_stack.len() != 1 || e.mode_stack[0] != "Default" {
            format!("mode-stack:{}", e.mode_stack.last().map_or("", |s| s.split([' ', '(', '{']).next().unwrap_or("")))
        } else if e.macro_nesting_level != 0 {
            "macro-nesting".to_string()
        } else if e.pending_stat != [false] {
            "pending-statement".to_string()
        } else {
            "checkpoint".to_string()
        };
        out.push(format!("wellformed.residual-state:{what}"));
    }
    let _ = src;
    out
}

/// end-configuration trace along the token boundaries of a program: states and transitions of
/// the mode machine exercised by well-formed programs
fn trace_program(local: &mut Local, src: &str, r: &LexResult) {
    if src.len() > 4096 {
        return; // one lexer run per token boundary: quadratic, pointless for the deep-nesting items
    }
    let mut prev: Option<u64> = cfg_of("");
    let infos: Vec<_> = r.buffer.iter_tokens_infos().collect();
    let mut last_off = usize::MAX;
    for (_, ti) in infos.iter().skip(1) {
        let off = ti.byte_offset().get() as usize;
        if off == last_off || off == 0 || off > src.len() {
            continue;
        }
        last_off = off;
        let c = cfg_of(&src[..off]);
        if let Some(c) = c {
            local.states.insert(c);
            if let Some(p) = prev {
                local.transitions.insert(hash64(&(p, ti.token_type() as u16, c)));
            }
        }
        prev = c;
    }
}

/// One well-formed statement per macro statement keyword, and one call per argument-taking
/// built-in macro function (argument lists according to the function's class).
fn zoo_items() -> Vec<String> {
    let mut v: Vec<String> = [
        "%abort cancel;",
        "%abort return 4;",
        "%symdel a b / nowarn;",
        "%syslput a=1 / remote=x;",
        "%sysrput a=&b;",
        "%sysexec ls -l;",
        "%syscall ranuni(seed,~x);",
        "%copy m / source;",
        "%sysmacdelete m / nowarn;",
        "%include 'x.sas';",
        "%inc \"x.sas\" / source2;",
        "%list;",
        "%run;",
        "%input a b;",
        "%display w;",
        "%window w #1 @1 'text';",
        "%sysmstoreclear;",
        "%return;",
        "%goto l;",
        "%l: %put a;",
        "%global / readonly g=1;",
        "%local / readonly l=%eval(1+1);",
        "%local a b c;",
        "%put _all_;",
        "%if &a %then %put x; %else %put y;",
        "%if %length(&a) %then %do; %end;",
        "%let a=;",
        "%let a=%sysmexecdepth;",
    ]
    .iter()
    .map(|s| (*s).to_string())
    .collect();
    for (kw, t) in crate::spaces::macro_keywords() {
        if !crate::oracles::is_arg_taking_builtin(t) {
            continue;
        }
        let k = kw.to_ascii_lowercase();
        let call = match t {
            T::KwmScan | T::KwmQScan | T::KwmKScan | T::KwmQKScan => format!("%{k}~(~a b,~2,~%str( ))"),
            T::KwmSubstr | T::KwmQSubstr | T::KwmKSubstr | T::KwmQKSubstr => format!("%{k}~(~abc,~1,~2)"),
            T::KwmSysfunc | T::KwmQSysfunc => format!("%{k}~(~f~(~1,~&v)~,~best.)"),
            T::KwmEval | T::KwmSysevalf => format!("%{k}~(~1 + &v)"),
            T::KwmStr | T::KwmNrStr => format!("%{k}(a,b)"),
            _ => format!("%{k}~(~&v)"),
        };
        v.push(format!("%let x~=~{call};"));
        v.push(format!("%put {call};"));
        v.push(format!("y=\"{call}\";"));
    }
    v
}

/// Contexts for the rarely used macro statements and for *every* argument-taking built-in,
/// each with a hole (the zoo has one fixed instance of each; here the hole is filled with every
/// chain of depth <= 1 of its type). Kept out of `CONTEXTS` so that the deep chains stay small.
pub fn rare_contexts() -> Vec<(char, String, char)> {
    let mut v: Vec<(char, String, char)> = [
        ('S', "%goto {}~;", 'V'),
        ('S', "%symdel {} b~/~nowarn~;", 'V'),
        ('S', "%syslput a~=~{}~/~remote~=~x~;", 'T'),
        ('S', "%sysrput a~=~{}~;", 'T'),
        ('S', "%abort return {}~;", 'T'),
        ('S', "%input a {}~;", 'V'),
        ('S', "%display {}~;", 'V'),
        ('S', "%window w #1 @1 {}~;", 'T'),
        ('S', "%sysexec {}~;", 'T'),
        ('S', "%syscall f~(~{}~,~x~)~;", 'F'),
        ('S', "%syscall f~(~x~,~{}~)~;", 'F'),
        ('S', "%syscall {}~(~a~)~;", 'V'),
        ('S', "%copy {}~/~source~;", 'V'),
        ('S', "%sysmacdelete {}~/~nowarn~;", 'V'),
        ('S', "%include {}~;", 'O'),
        ('S', "%inc {} / source2;", 'O'),
        ('S', "%if &a %then {}", 'S'),
        ('S', "%if &a %then %put a;~%else {}", 'S'),
        ('S', "%macro m~/~des=\"{}\"~;~%mend~;", 'Q'),
        ('S', "%macro m~(~a~=~{}~,~b~)~;~%mend~;", 'A'),
        ('S', "%macro m(p,~k~=~{}~)~/~store;%mend;", 'A'),
        ('S', "%do i=1 %to 3 %by ~{}~; %end;", 'E'),
        ('S', "%do %until~(~{}~)~; %end;", 'E'),
        ('S', "%local a {}~;", 'V'),
        ('S', "%l: %put {};", 'T'),
        ('S', "%l:~{}", 'S'),
        ('S', "%if &a %then %do;~{} %end;~%else %put n;", 'S'),
        ('S', "%if &a %then %do;~{} %end;~%else %do; x=2; %end;", 'S'),
        ('S', "%if &a %then {} %else %put n;", 'S'),
        ('S', "%macro q; %if &a %then %do;~{} %end; %else %put n; %mend;", 'S'),
        // a block that starts at a statement start and ends in an unterminated open-code fragment:
        // the statement-pending flag of the block must not leak across its %end (C15)
        ('S', "%do;~{} x %end~;", 'S'),
        ('S', "%if &a %then %do;~{} set y %end;", 'S'),
        ('S', "%macro q; %do;~{} x %end; %mend;", 'S'),
        // ... with a %do block inside a call argument / a string in the body: its %end must pop the
        // level its own %do pushed, not the one of the enclosing block
        ('S', "%macro q; id %m(a%do;~{} %end;) x %mend;", 'A'),
        ('S', "%macro q; y=\"a%do; {} %end;\" x %mend;", 'Q'),
        ('S', "%do; id %m(a%do;~{} %end;) x %end;", 'A'),
        ('S', "%do; y=\"a%do; {} %end;\" x %end;", 'Q'),
    ]
    .iter()
    .map(|(a, b, c)| (*a, (*b).to_string(), *c))
    .collect();
    for (kw, t) in crate::spaces::macro_keywords() {
        if !crate::oracles::is_arg_taking_builtin(t) {
            continue;
        }
        let k = kw.to_ascii_lowercase();
        match t {
            T::KwmScan | T::KwmQScan | T::KwmKScan | T::KwmQKScan => {
                v.push(('T', format!("%{k}~(~{{}}~,~2~)"), 'A'));
                v.push(('T', format!("%{k}~(~a b~,~{{}}~)"), 'E'));
                v.push(('T', format!("%{k}(a b,~2~,~{{}}~)"), 'A'));
                v.push(('T', format!("%{k}(a b,~2,~%str( ),~{{}}~)"), 'A'));
            }
            T::KwmSubstr | T::KwmQSubstr | T::KwmKSubstr | T::KwmQKSubstr => {
                v.push(('T', format!("%{k}~(~{{}}~,~1~)"), 'A'));
                v.push(('T', format!("%{k}~(~abc~,~{{}}~)"), 'E'));
                v.push(('T', format!("%{k}(abc,~1~,~{{}}~)"), 'E'));
            }
            T::KwmSysfunc | T::KwmQSysfunc => {
                v.push(('T', format!("%{k}~(~f~(~{{}}~)~)"), 'F'));
                v.push(('T', format!("%{k}(f(1~,~{{}}~)~,~best.~)"), 'F'));
                v.push(('T', format!("%{k}(~{{}}~(1))"), 'V'));
            }
            T::KwmEval => v.push(('T', format!("%{k}~(~{{}}~)"), 'E')),
            T::KwmSysevalf => {
                v.push(('T', format!("%{k}~(~{{}}~)"), 'F'));
                v.push(('T', format!("%{k}(~{{}}~,~floor~)"), 'F'));
            }
            T::KwmStr => v.push(('T', format!("%{k}({{}})"), 'T')),
            T::KwmNrStr => v.push(('T', format!("%{k}({{}})"), 'N')),
            _ => {
                v.push(('T', format!("%{k}~(~{{}}~)"), 'A'));
            }
        }
    }
    v
}

/// Leaves that are too many for the deep chains: used at depth 1 only, in every context
/// (regular and rare) that has a hole of their type.
const RARE_LEAVES: &[(char, &[&str])] = &[
    (
        'S',
        &[
            "%macro m~(~)~;~%mend~;", "%macro m( /*c*/ ) / des='x';%mend;", "%macro m~(~)~/~store~;~%mend m~;", "%m~(~)~;", "x=%m( );",
            "%put a/b a&b a&&b a& & 50% a%b;", "%let a=a/b&;", "x=5 % 2;", "%sysmstoreclear; %list; %run;",
            // macro statements that begin in the middle of an open-code statement
            "set y %if &b %then (obs=1); ;", "x=1 %if &c %then +2; ;", "a %do; b %end; c;", "a = 1 %if &c %then * 42; %else * 2; ;",
            "set y %if &b %then (obs=1); ; * c;", "x = %do; 1 %end; ;",
        ],
    ),
    (
        'T',
        &[
            "a/b", "a & b", "a&&", "&", "50%", "a%b", "%str(%%)", "%str(&v%%)", "%str(%m(1)%%)", "%str('a'%%)", "%str(/*c*/%%)",
            "%str(%()", "%str(%))", "%str(a%'b)", "%str(%\")", "%nrstr(%%)", "%nrstr(&v%%)", "%nrstr(%m(;))", "a,b", "(a,b)", "a=b",
            "%str(%%%%)", "%str(%%%))", "%str(a%%)", "%str(%%a)",
            // a macro statement inside a double-quoted literal inside %str / %nrstr (allowed there,
            // an open-code recursion error in the other macro text contexts)
            // quoted literals with a suffix, plain and as string expressions, in value positions
            "\"&v\"dt", "\"&v.x\"d", "\"a &v\"n", "'a'dt", "\"%m()\"t", "\"&v\"x",
            "%str(\"%let q=1;\")", "%str(\"a %put b; c\")", "%nrstr(call execute(\"%let x=1;\"))", "%str(x \"%global g;\" 'y')",
        ],
    ),
    (
        'E',
        &[
            "0ffx", "1e-3", "-1", "+&v", "1.5", "^1", "~&v", "¬1", "1 ^= 2", "1 ~= 2", "1 ¬= 2", "a%", "1 ** 2", "1 >= 2", "1 <= 2", "a # b",
            "1 | 0", "1 & 0", "a||b", "1\nand 2", "1\n+2", "a\neq b", "not\n1", "12345678901234567890",
        ],
    ),
    ('F', &["1e-3", "2.5E+2", "1e", ".5", "1.", "0ffx", "1e5", "-1.5", "1.5e3", "1e-3x", "1\nand 2.5", "1.5 ^= 2", "9007199254740993"]),
    (
        'A',
        &[
            "%str(,)", "%str(%))", "a=b", "(a=b,c)", "%nrstr(&x)", "(a;b)", "'a;b'", "a/*c*/b", "%str(;)", "a%b", "a&", "&", "%", "a(b)c", "((a))",
            "%m(a,b)", "%m(k=(1,2))", "(a,(b,c))", "a\nb", "%str(%%)",
            // a macro comment in the middle of a value, with delimiters in its body
            "x %*(; y", "x %*,; y", "x %*); y", "x %* %let; y", "%*(;x", "1 %* a=b, c; ", "%str(a&)", "%str(a&&)b", "%str(a&(b))",
            "\"&v\"dt", "\"&v.x\"d", "'a'dt", "\"&v\"x", "\"a\"n",
        ],
    ),
    (
        'Q',
        &[
            "%str(%%)", "&&v&i", "50%", "a&", "a&&b", "%nrstr(&x)", "''", "'", "it's", "a;b", "/*c*/", "*c;", "%%", "a%%b", "%sysfunc(f(1),best.)",
            "a\nb", "&v..b", "%m(\"a\")",
        ],
    ),
    ('V', &["a&&v&i", "&v.&&w&i", "%m()&&v&i", "a&&&b", "&a.b", "a_&v", "&&&a", "a%m()b&v", "&a&&b&c", "&a.&b"]),
    ('N', &["%%", "%'", "%(", "%)", "&v%%", "a;b", "%str(a)", "/*c*/", "%%)%("]),
    ('O', &["5 % 2", "a ** b", "a||b", "&v..b", "'a'n", "1e-3", "0ffx", "$char8.", "a=:b", "(a,b)", "{1}", "[1]", "a<>b", "a><b", "1.", ".5"]),
];

fn rare_leaves(t: char) -> &'static [&'static str] {
    RARE_LEAVES.iter().find(|(k, _)| *k == t).map_or(&[], |(_, v)| v)
}

/// hosts that lift a template of type `own` to statement level
fn hosts_of(own: char) -> &'static [&'static str] {
    match own {
        'S' => &["{}"],
        'T' => &["%let x~=~{};", "%put {}~;", "y=\"{}\";", "%m(~{}~)~;", "%if ~{}~%then~%put a;", "x=~{}~;"],
        'E' => &["%if ~{}~%then~%put a;", "%let x=%eval(~{}~);", "%do i=~{}~%to 3; %end;"],
        'A' => &["%m(~{}~)~;", "%let x=%upcase(~{}~);"],
        'Q' => &["y=\"{}\";", "%put \"{}\";"],
        'V' => &["%let {}~=~1;", "%global {}~;"],
        _ => &[],
    }
}

/// every context (regular and rare) with its hole filled by every rare leaf of the hole's type,
/// lifted to statement level
pub fn rare_leaf_templates() -> Vec<String> {
    let mut out = Vec::new();
    let mut all: Vec<(char, String, char)> = CONTEXTS.iter().map(|c| (c.0, c.1.to_string(), c.2)).collect();
    all.extend(rare_contexts());
    // parenthesised commas inside the arguments whose expressions mask them
    all.push(('S', "%syscall f~(~(~a~,~{}~)~,~x~)~;".to_string(), 'F'));
    all.push(('T', "%sysfunc(f(~(~a~,~{}~)~))".to_string(), 'F'));
    all.push(('T', "%qscan(a b,~(~1~,~{}~))".to_string(), 'E'));
    all.push(('T', "%substr(abc,~(~1~,~{}~))".to_string(), 'E'));
    for l in rare_leaves('S') {
        out.push((*l).to_string());
    }
    for (own, tmpl, hole) in &all {
        let mut contents: Vec<&str> = rare_leaves(*hole).to_vec();
        if tmpl.contains("(~a~,~{}") || tmpl.contains("(~1~,~{}") {
            contents.extend(leaves(*hole));
        }
        for content in contents {
            if tmpl.contains("{}~(") && ends_with_bare_call(content) {
                continue;
            }
            // a comma in a plain text leaf would add an argument where the count is fixed
            if *hole == 'T' && *own == 'T' && content.contains(',') && !content.contains('(') {
                continue;
            }
            // "50%" directly in front of the ')' of %str would spell the escape "%)"
            if content.ends_with('%') && tmpl.contains("str({})") {
                continue;
            }
            let t = tmpl.replacen("{}", content, 1);
            for h in hosts_of(*own) {
                if tmpl.starts_with('"') && h.contains("\"{}\"") {
                    continue; // a string inside a string is two strings around bare text
                }
                out.push(h.replacen("{}", &t, 1));
            }
        }
    }
    out.sort();
    out.dedup();
    out
}

fn ends_with_bare_call(s: &str) -> bool {
    let b = s.trim_end_matches(|c: char| c.is_ascii_alphanumeric() || c == '_');
    b.len() < s.len() && b.ends_with('%')
}

/// statement-level templates (gap markers still in) built from the rare contexts: every rare
/// context filled with every chain of depth <= `d` of its hole type; T-level ones inside the
/// value hosts %let, %put, a double-quoted string, a call argument and an %if expression
pub fn rare_templates(d: usize) -> Vec<String> {
    rare_templates_sel(d, false)
}

/// the rare-context programs whose context is itself a statement (no text-level context lifted
/// into a host statement): the ones that can leave statement-level state behind
pub fn rare_statement_programs() -> Vec<String> {
    let mut v: Vec<String> = rare_templates_sel(1, true)
        .iter()
        .map(|x| {
            let mut s = String::new();
            apply_filler(x, "", &mut s);
            s
        })
        .collect();
    v.sort();
    v.dedup();
    v
}

fn rare_templates_sel(d: usize, statements_only: bool) -> Vec<String> {
    let inner = chains(d);
    let mut out = Vec::new();
    const T_HOSTS: &[&str] = &["%let x~=~{};", "%put {}~;", "y=\"{}\";", "%m(~{}~)~;", "%if ~{}~%then~%put a;", "x=~{}~;"];
    for (own, tmpl, hole) in rare_contexts() {
        for content in &inner[&hole] {
            // a bare call directly in front of a '(' would take that parenthesis as its own
            // argument list; a comment alone is no statement for %then / %else / a label
            if tmpl.contains("{}~(") && ends_with_bare_call(content) || hole == 'S' && content.starts_with("/*") {
                continue;
            }
            let t = tmpl.replacen("{}", content, 1);
            if own == 'S' {
                out.push(t);
            } else if statements_only {
                continue;
            } else {
                for h in T_HOSTS {
                    out.push(h.replacen("{}", &t, 1));
                }
            }
        }
    }
    out
}

fn c12_run(cfg: &Config) -> PropRun {
    let ex = Explorer::new(cfg.threads, cfg.cap_s, if cfg.tier == Tier::Quick { 26 } else { 30 });
    let d = if cfg.tier == Tier::Quick { 4 } else { 5 };
    let nf = FILLERS.len() as u64;
    let trace_every: u64 = if cfg.tier == Tier::Quick { 64 } else { 1024 };
    let visit = |local: &mut Local, input: &str, i: u64| -> Visit {
        local.lexer_runs += 1;
        match run_lexer(input) {
            Outcome::Ok(r) if !r.verif.budget_exceeded => {
                for s in c12_check(input, &r) {
                    local.finding(format!("C12 {s}"), input);
                }
                local.maximum("max_mode_stack_depth", f64::from(r.verif.max_mode_stack_depth), input);
                if i % trace_every == 0 {
                    trace_program(local, input, &r);
                }
                Visit { cfg: Some(cfg_hash(&r)), nontrivial: r.verif.max_mode_stack_depth >= 6 }
            }
            _ => {
                local.unobservable += 1;
                local.finding("C12 wellformed.no-result".to_string(), input);
                Visit { cfg: None, nontrivial: false }
            }
        }
    };
    // chains of depth <= depth; `all_fillers`: every chain with every gap filler, otherwise each
    // chain with one filler chosen by rotation over the chain index
    let run_chains = |depth: usize, all_fillers: bool| -> Report {
        // materialise depth-1, index the last layer
        let inner = chains(depth - 1);
        let top: Vec<&(char, &str, char)> = CONTEXTS.iter().filter(|c| c.0 == 'S').collect();
        let mut offs: Vec<u64> = vec![0];
        let s_leaves = leaves('S');
        let mut total = s_leaves.len() as u64;
        offs.push(total);
        for c in &top {
            total += inner[&c.2].len() as u64;
            offs.push(total);
        }
        let mult = if all_fillers { nf } else { 1 };
        let make = |i: u64, buf: &mut String| {
            let (filler, i) = if all_fillers { (FILLERS[(i % nf) as usize], i / nf) } else { (FILLERS[(i % nf) as usize], i) };
            let k = offs.partition_point(|&o| o <= i) - 1;
            let j = (i - offs[k]) as usize;
            if k == 0 {
                apply_filler(s_leaves[j], filler, buf);
            } else {
                let c = top[k - 1];
                let t = c.1.replacen("{}", &inner[&c.2][j], 1);
                apply_filler(&t, filler, buf);
            }
        };
        ex.run_list(
            &format!("G.chains(depth<={depth}) x {}", if all_fillers { "all gap fillers" } else { "one gap filler per chain (rotating)" }),
            total * mult,
            make,
            visit,
        )
    };
    // the bulk (all chains) runs last, after the sequence, zoo and rare-context passes: a time cap
    // then cuts the tail of the largest enumeration and never a targeted pass
    let mut report = run_chains(1, true);
    // sequences of two programs: the second starts from the configuration the first leaves
    let dd = if cfg.tier == Tier::Quick { 1 } else { 2 };
    let mut seq = programs(dd, false);
    // the snippets of the repository's inline tests that are, on this tree, error-free and closed
    // on their own (ending in a consumed ';' or a comment): sequences of such programs are
    // statement-complete programs too
    for t in crate::spaces::load_test_strings(&cfg.corpus_dir) {
        if let Outcome::Ok(r) = run_lexer(&t) {
            // (a byte-order mark is one only at the very start of a source: C17)
            if r.errors.is_empty() && !r.verif.budget_exceeded && !t.starts_with('\u{feff}') && crate::props::closed_prefix(&t, &r) {
                seq.push(t);
            }
        }
    }
    seq.sort();
    seq.dedup();
    let n = seq.len() as u64;
    // joined by every kind of blank the lexer knows, not only ' ' (and by nothing at all)
    const SEPS: &[&str] = &[" ", "", "\n", "\r\n", "\t", "\u{c}", "\u{a0}", "\u{2028}", "\u{85}", " /*c*/ "];
    let ns = SEPS.len() as u64;
    let seq_report = ex.run_list(
        &format!("G.sequences(2 programs of depth<={dd} x {ns} separators)"),
        n * n * ns,
        |i, buf| {
            let (sep, i) = (SEPS[(i % ns) as usize], i / ns);
            buf.push_str(&seq[(i / n) as usize]);
            buf.push_str(sep);
            buf.push_str(&seq[(i % n) as usize]);
        },
        |local, input, _| {
            local.lexer_runs += 1;
            match run_lexer(input) {
                Outcome::Ok(r) if !r.verif.budget_exceeded => {
                    for s in c12_check(input, &r) {
                        local.finding(format!("C12 {s}"), input);
                    }
                    Visit { cfg: Some(cfg_hash(&r)), nontrivial: r.verif.max_mode_stack_depth >= 6 }
                }
                _ => {
                    local.unobservable += 1;
                    local.finding("C12 wellformed.no-result".to_string(), input);
                    Visit { cfg: None, nontrivial: false }
                }
            }
        },
    );
    report.absorb(seq_report);
    // the "zoo": one well-formed instance of every macro statement keyword and of every
    // argument-taking built-in macro function, inside every statement context of depth <= 2
    let zoo = zoo_items();
    let wrappers: Vec<String> = {
        let mut w = vec!["{}".to_string()];
        let s_ctx: Vec<&str> = CONTEXTS.iter().filter(|c| c.0 == 'S' && c.2 == 'S').map(|c| c.1).collect();
        for a in &s_ctx {
            w.push((*a).to_string());
            for b in &s_ctx {
                w.push(a.replacen("{}", b, 1));
            }
        }
        w
    };
    let nz = zoo.len() as u64;
    let nw = wrappers.len() as u64;
    let zoo_report = ex.run_list(
        "G.zoo(every macro statement keyword, every built-in function) x statement contexts x fillers",
        nz * nw * nf,
        |i, buf| {
            let filler = FILLERS[(i % nf) as usize];
            let i = i / nf;
            let t = wrappers[(i / nz) as usize].replacen("{}", &zoo[(i % nz) as usize], 1);
            apply_filler(&t, filler, buf);
        },
        |local, input, _| {
            local.lexer_runs += 1;
            match run_lexer(input) {
                Outcome::Ok(r) if !r.verif.budget_exceeded => {
                    for s in c12_check(input, &r) {
                        local.finding(format!("C12 {s}"), input);
                    }
                    Visit { cfg: Some(cfg_hash(&r)), nontrivial: r.verif.max_mode_stack_depth >= 6 }
                }
                _ => {
                    local.unobservable += 1;
                    local.finding("C12 wellformed.no-result".to_string(), input);
                    Visit { cfg: None, nontrivial: false }
                }
            }
        },
    );
    report.absorb(zoo_report);
    // rare contexts with holes x statement wrappers of depth <= 1 x fillers
    let mut rare = rare_templates(1);
    rare.extend(rare_leaf_templates());
    let rwrappers: Vec<String> = {
        let mut w = vec!["{}".to_string()];
        for c in CONTEXTS.iter().filter(|c| c.0 == 'S' && c.2 == 'S') {
            w.push(c.1.to_string());
        }
        w
    };
    let nr = rare.len() as u64;
    let nrw = rwrappers.len() as u64;
    // quick tier: every filler with the bare program, one filler per item (rotating over the item
    // index) inside the statement wrappers; thorough tier: the full product
    let quick = cfg.tier == Tier::Quick;
    let rare_total = if quick { nr * nf + nr * (nrw - 1) } else { nr * nrw * nf };
    let rare_report = ex.run_list(
        "G.rare(contexts for every rarely used statement and every built-in, hole filled with every chain of depth<=1) x statement contexts x fillers",
        rare_total,
        |i, buf| {
            let (filler, wi, ri) = if quick {
                if i < nr * nf {
                    (FILLERS[(i % nf) as usize], 0u64, (i / nf) % nr)
                } else {
                    let j = i - nr * nf;
                    (FILLERS[((j / 3) % nf) as usize], 1 + j / nr, j % nr)
                }
            } else {
                (FILLERS[(i % nf) as usize], (i / nf) / nr, (i / nf) % nr)
            };
            let t = rwrappers[wi as usize].replacen("{}", &rare[ri as usize], 1);
            apply_filler(&t, filler, buf);
        },
        |local, input, _| {
            local.lexer_runs += 1;
            match run_lexer(input) {
                Outcome::Ok(r) if !r.verif.budget_exceeded => {
                    for s in c12_check(input, &r) {
                        local.finding(format!("C12 {s}"), input);
                    }
                    Visit { cfg: Some(cfg_hash(&r)), nontrivial: r.verif.max_mode_stack_depth >= 6 }
                }
                _ => {
                    local.unobservable += 1;
                    local.finding("C12 wellformed.no-result".to_string(), input);
                    Visit { cfg: None, nontrivial: false }
                }
            }
        },
    );
    report.absorb(rare_report);
    report.absorb(run_chains(d - 1, true));
    report.absorb(run_chains(d, false));
    report.distinct_nontrivial = ex.distinct_nontrivial.load(std::sync::atomic::Ordering::Relaxed);
    PropRun {
        report,
        rule: format!("every derivation chain of the construct grammar G ({} contexts, 9 hole types) of depth <= {} with every gap filler of {{none, blank, blank+comment+newline, two adjacent comments, comment+blank, a run of 66 hidden tokens, NBSP, VT}}, and of depth <= {d} with one of these fillers per chain (rotating over the chain index); every ordered pair of programs of depth <= {dd} (and of the inline-test snippets that are error-free and closed on their own) joined by each of 10 separators (blank, nothing, LF, CRLF, TAB, FF, NBSP, U+2028, NEL, commented blank); one well-formed instance of every macro statement keyword and every argument-taking built-in function inside every statement context of depth <= 2 with every filler; a context with a hole for every rarely used macro statement and for every argument position of every built-in, the hole filled with every chain of depth <= 1, and every context filled with every leaf of a second, larger leaf set (lone % and & in text, %-escapes at the start of a %str segment, signed exponents, hex integers, symbol NOT, operands ending a line, multi-ampersand name continuations, empty parameter lists, parenthesised commas in masking arguments), inside every statement context of depth <= 1 with every filler (quick tier: every filler with the bare program, one filler per item, rotating, inside the statement contexts); non-trivial = mode stack depth >= 6 reached; states/transitions = end configurations at the token boundaries of every {trace_every}th program", CONTEXTS.len(), d - 1),
        oracle: "no error at all; end-of-input configuration = ([Default], nesting 0, pending [false], no checkpoint)".into(),
    }
}

// =============================================================================================
// C13: delimiter map

#[derive(Clone, Debug, PartialEq)]
pub enum Kind {
    /// the construct's own delimiter: a token of this type/channel starts exactly here
    Delim(T, Ch),
    /// an operator of a macro expression
    Op(T),
    /// a standalone integer operand of a macro expression
    Int(u64),
    /// text in which no comma / equal sign / semicolon / parenthesis may be a delimiter token
    Masked,
    /// insignificant blanks and comments: hidden or comment channel only
    Gap,
    /// a word operand of a macro expression: exactly one MacroString token covers it
    Word,
    Other,
}

#[derive(Clone, Debug)]
pub struct Piece {
    pub text: String,
    pub kind: Kind,
}

fn p(text: &str, kind: Kind) -> Piece {
    Piece { text: text.to_string(), kind }
}
fn other(text: &str) -> Piece {
    p(text, Kind::Other)
}
fn masked(text: &str) -> Piece {
    p(text, Kind::Masked)
}
fn delim(text: &str, t: T) -> Piece {
    p(text, Kind::Delim(t, Ch::DEFAULT))
}
fn hdelim(text: &str, t: T) -> Piece {
    p(text, Kind::Delim(t, Ch::HIDDEN))
}
fn gap(filler: &str) -> Piece {
    p(filler, Kind::Gap)
}

/// argument value shapes; `top_comma` = the shape contains a top-level comma
fn value_shapes() -> &'static Vec<(Vec<Piece>, bool)> {
    static SHAPES: std::sync::OnceLock<Vec<(Vec<Piece>, bool)>> = std::sync::OnceLock::new();
    SHAPES.get_or_init(|| {
        let mut v = base_value_shapes();
        v.extend(split_group_shapes());
        v
    })
}

/// Number of shapes that take part in the full cross product of argument lists; the shapes after
/// them ("rare") are placed in every argument position once, next to plain values only.
fn n_base_shapes() -> usize {
    static N: std::sync::OnceLock<usize> = std::sync::OnceLock::new();
    *N.get_or_init(|| base_value_shapes().len())
}

/// A parenthesis group whose `(` and `)` fall into different text sections of the scanner (a
/// section ends at a macro variable, a quoted literal, a comment or a nested call), followed by
/// one more section boundary before the argument ends - as a plain value and as the text of
/// `%str` / `%nrstr`. Every (boundary inside the group, boundary after the group) pair.
fn split_group_shapes() -> Vec<(Vec<Piece>, bool)> {
    let inner: [Vec<Piece>; 5] = [
        vec![other("&v")],
        vec![other("\"x\"")],
        vec![other("/*c*/")],
        vec![other("%n"), delim("(", T::LPAREN), delim(")", T::RPAREN)],
        vec![masked("'q,r'")],
    ];
    let after: [Vec<Piece>; 6] = [
        vec![other(" &w")],
        vec![other(" \"y\"")],
        vec![other("/*d*/z")],
        vec![other(" %n"), delim("(", T::LPAREN), other("p"), delim(")", T::RPAREN)],
        vec![other(" "), masked("'r=s'")],
        vec![],
    ];
    let mut out = Vec::new();
    for host in 0..3 {
        for (ii, i) in inner.iter().enumerate() {
            for (ai, a) in after.iter().enumerate() {
                // inside %nrstr a call is text: its parentheses are not tokens
                let textify = |pcs: &Vec<Piece>| -> Vec<Piece> {
                    if host == 2 {
                        pcs.iter().map(|pc| if matches!(pc.kind, Kind::Delim(..)) { masked(&pc.text) } else { pc.clone() }).collect()
                    } else {
                        pcs.clone()
                    }
                };
                let mut v: Vec<Piece> = Vec::new();
                match host {
                    1 => {
                        v.push(other("%str"));
                        v.push(hdelim("(", T::LPAREN));
                    }
                    2 => {
                        v.push(other("%nrstr"));
                        v.push(hdelim("(", T::LPAREN));
                    }
                    _ => {}
                }
                // two groups deep when both indices are odd, so that a section may close two levels
                let deep = ii % 2 == 1 && ai % 2 == 1;
                v.push(masked(if deep { "((" } else { "(" }));
                v.extend(textify(i));
                v.push(masked(if deep { ",b) c=d)" } else { ",b)" }));
                v.extend(textify(a));
                if host > 0 {
                    v.push(hdelim(")", T::RPAREN));
                }
                out.push((v, false));
            }
        }
    }
    out
}

fn base_value_shapes() -> Vec<(Vec<Piece>, bool)> {
    vec![
        (vec![other("w")], false),
        (vec![other("a b")], false),
        (vec![masked("(x,y)")], false),
        (vec![masked("((x),y=1)")], false),
        (vec![masked("(a;b)")], false),
        (vec![masked("("), other("&v"), masked(",b)")], false),
        (vec![masked("("), other("\"x\""), masked(",b)")], false),
        (vec![masked("("), other("%n"), delim("(", T::LPAREN), delim(")", T::RPAREN), masked(",b)")], false),
        (vec![masked("'a,b'")], false),
        (vec![masked("\"a,b=c;\"")], false),
        (vec![other("%str"), hdelim("(", T::LPAREN), masked(","), hdelim(")", T::RPAREN)], false),
        (vec![other("%str"), hdelim("(", T::LPAREN), masked("%)"), hdelim(")", T::RPAREN)], false),
        (vec![other("%nrstr"), hdelim("(", T::LPAREN), masked("a,b;"), hdelim(")", T::RPAREN)], false),
        // a lone '&' / '%' run that is not first in its text section, directly before the ')' or a
        // '(' of %str; a macro comment with delimiters in its body inside a value
        (vec![other("%str"), hdelim("(", T::LPAREN), masked("a&"), hdelim(")", T::RPAREN)], false),
        (vec![other("%str"), hdelim("(", T::LPAREN), masked("a&&,x&(y,z)5% "), hdelim(")", T::RPAREN)], false),
        (vec![other("%nrstr"), hdelim("(", T::LPAREN), masked("a&,&b%"), other(" "), hdelim(")", T::RPAREN)], false),
        (vec![other("x "), masked("%*(,=;"), other("y")], false),
        (vec![other("&v")], false),
        (vec![other("&v.x")], false),
        (
            vec![other("%n"), delim("(", T::LPAREN), other("p"), delim(",", T::COMMA), other("q"), delim(")", T::RPAREN)],
            false,
        ),
        (vec![other("a"), masked("(b,c)"), other("d")], false),
        // a call inside an argument of a call (the inner delimiters are delimiters of the inner call)
        (
            vec![
                other("%n"), delim("(", T::LPAREN), other("%o"), delim("(", T::LPAREN), other("p"), delim(",", T::COMMA), other("q"), delim(")", T::RPAREN),
                delim(",", T::COMMA), other("j"), delim("=", T::ASSIGN), other("%upcase"), delim("(", T::LPAREN), other("r"), delim(")", T::RPAREN), delim(")", T::RPAREN),
            ],
            false,
        ),
        (vec![other("1"), masked(";"), other("2")], false),
        // a second '=' at the top level of a value: only where the first '=' already made it a value
        (vec![other("obs"), masked("="), other("10")], true),
        (vec![other("&v"), masked("= "), other("%n"), delim("(", T::LPAREN), delim(")", T::RPAREN)], true),
        (vec![], false),
    ]
}

#[derive(Clone, Copy, PartialEq, Debug)]
enum ArgModel {
    /// user macro call / %verify class: named arguments allowed, top-level commas split
    Named,
    /// built-ins whose top-level commas split (no named arguments)
    Positional,
    /// strictly one argument: commas are text
    OneMasking,
}

fn arg_lists(model: ArgModel, max_args: usize) -> Vec<Vec<(bool, usize)>> {
    // (named?, shape index)
    let shapes = value_shapes();
    let n_all = shapes.len();
    let ns = n_base_shapes();
    // a value with a top-level '=' would itself be a named argument where names are allowed
    let mut per_arg: Vec<(bool, usize)> = (0..ns).filter(|s| !(model == ArgModel::Named && shapes[*s].1)).map(|s| (false, s)).collect();
    if model == ArgModel::Named {
        per_arg.extend((0..ns).map(|s| (true, s)));
    }
    let mut out: Vec<Vec<(bool, usize)>> = vec![vec![]];
    let mut level: Vec<Vec<(bool, usize)>> = vec![vec![]];
    for _ in 0..max_args {
        let mut next = Vec::new();
        for l in &level {
            // positional arguments may not follow named ones in SAS
            let had_named = l.iter().any(|a| a.0);
            for a in &per_arg {
                if had_named && !a.0 {
                    continue;
                }
                let mut n = l.clone();
                n.push(*a);
                next.push(n);
            }
        }
        out.extend(next.iter().cloned());
        level = next;
    }
    // the rare shapes: alone, and in either position next to the plain value `w`
    for r in ns..n_all {
        let mut kinds = vec![false];
        if model == ArgModel::Named {
            kinds.push(true);
        }
        for named in kinds {
            if max_args >= 1 {
                out.push(vec![(named, r)]);
            }
            if max_args >= 2 {
                out.push(vec![(false, 0), (named, r)]);
                out.push(vec![(named, r), (named, 0)]);
            }
        }
    }
    out
}

fn build_call(head: &str, model: ArgModel, args: &[(bool, usize)], filler: &str, hidden: bool) -> Vec<Piece> {
    let shapes = value_shapes();
    let lp = if hidden { hdelim("(", T::LPAREN) } else { delim("(", T::LPAREN) };
    let rp = if hidden { hdelim(")", T::RPAREN) } else { delim(")", T::RPAREN) };
    let mut v = vec![other(head)];
    if !hidden {
        v.push(gap(filler));
    }
    v.push(lp);
    for (i, (named, s)) in args.iter().enumerate() {
        if i > 0 {
            if model == ArgModel::OneMasking {
                v.push(masked(","));
            } else {
                v.push(delim(",", T::COMMA));
                v.push(gap(filler));
            }
        } else if !hidden {
            v.push(gap(filler));
        }
        if *named {
            // the name of a named argument may itself be a text expression; rotate through the
            // shapes so that every (position, value shape) meets every name shape in some item
            let names = [
                "k{}", "&n", "&n.", "k{}&n", "k{}&n.", "&&n&i", "&n.k{}", "%n&n", "%a%b", "%n&n.k{}", "k{}%n",
                // a name produced by a call with its own parentheses, '=' glued to its ')'
                "%upcase(k{})", "%n(k{})", "%upcase(%n(a,b))", "k{}%n(1)", "%qscan(%n(a b),1)", "%str(k{})",
                // the other name-start class: an underscore (alone, leading, before a variable)
                "_k{}", "_", "_&n", "__k{}_",
            ];
            let name = names[(i + *s + args.len()) % names.len()].replace("{}", &i.to_string());
            v.push(other(&name));
            v.push(gap(filler));
            v.push(delim("=", T::ASSIGN));
            v.push(gap(filler));
        }
        v.extend(shapes[*s].0.iter().cloned());
    }
    v.push(rp);
    v
}

/// `%macro m(params); %mend;`
fn build_def(args: &[(bool, usize)], filler: &str) -> Vec<Piece> {
    let shapes = value_shapes();
    let mut v = vec![other("%macro m"), gap(filler), delim("(", T::LPAREN), gap(filler)];
    for (i, (named, s)) in args.iter().enumerate() {
        if i > 0 {
            v.push(delim(",", T::COMMA));
            v.push(gap(filler));
        }
        // parameter names: a letter or an underscore first
        v.push(other(&if (i + *s) % 3 == 1 { format!("_p{i}") } else { format!("p{i}") }));
        if *named {
            v.push(gap(filler));
            v.push(delim("=", T::ASSIGN));
            v.push(gap(filler));
            v.extend(shapes[*s].0.iter().cloned());
        }
    }
    v.push(delim(")", T::RPAREN));
    v.push(other("; %mend;"));
    v
}

struct Op {
    text: &'static str,
    ty: T,
    mnemonic: bool,
    unary: bool,
}

fn operators() -> Vec<Op> {
    let mut v = Vec::new();
    let sym = |t: &'static str, ty: T| Op { text: t, ty, mnemonic: false, unary: false };
    for (t, ty) in [
        ("+", T::PLUS),
        ("-", T::MINUS),
        ("*", T::STAR),
        ("/", T::FSLASH),
        ("**", T::STAR2),
        ("<", T::LT),
        ("<=", T::LE),
        ("=", T::ASSIGN),
        ("^=", T::NE),
        ("~=", T::NE),
        ("¬=", T::NE),
        (">", T::GT),
        (">=", T::GE),
        ("#", T::HASH),
        ("|", T::PIPE),
        ("&", T::AMP),
    ] {
        v.push(sym(t, ty));
    }
    for (t, ty) in [
        ("eq", T::KwEQ),
        ("EQ", T::KwEQ),
        ("Ne", T::KwNE),
        ("ne", T::KwNE),
        ("lt", T::KwLT),
        ("LT", T::KwLT),
        ("le", T::KwLE),
        ("lE", T::KwLE),
        ("gt", T::KwGT),
        ("GT", T::KwGT),
        ("ge", T::KwGE),
        ("Ge", T::KwGE),
        ("and", T::KwAND),
        ("AND", T::KwAND),
        ("aNd", T::KwAND),
        ("or", T::KwOR),
        ("OR", T::KwOR),
        ("in", T::KwIN),
        ("IN", T::KwIN),
    ] {
        v.push(Op { text: t, ty, mnemonic: true, unary: false });
    }
    for (t, ty, m) in [("not", T::KwNOT, true), ("NOT", T::KwNOT, true), ("nOt", T::KwNOT, true), ("^", T::NOT, false), ("~", T::NOT, false), ("-", T::MINUS, false), ("+", T::PLUS, false)] {
        v.push(Op { text: t, ty, mnemonic: m, unary: true });
    }
    v
}

fn operand_shapes() -> Vec<Vec<Piece>> {
    vec![
        vec![p("12", Kind::Int(12))],
        vec![other("&v")],
        vec![other("ab")],
        // a mnemonic spelling inside a word is not an operator
        // macro variable expressions with several ampersand runs, closed by their dots
        vec![other("&&&a&&b.")],
        vec![other("&&a&b&&c.")],
        vec![other("&&&&a&&b&c&&d..")],
        vec![p("a_or", Kind::Word)],
        vec![p("b_in", Kind::Word)],
        vec![p("v2ne", Kind::Word)],
        vec![p("c_eq", Kind::Word)],
        vec![masked("'s,=;'")],
        // a lone '%' as a whole operand and at the end of one (text, never a macro trigger)
        vec![other("%")],
        vec![other("5%")],
        vec![other("&v%")],
        vec![p("(", Kind::Op(T::LPAREN)), p("3", Kind::Int(3)), p("+", Kind::Op(T::PLUS)), p("4", Kind::Int(4)), p(")", Kind::Op(T::RPAREN))],
    ]
}

/// expression = operand (binop [unop] operand)*; `ops` indexes into `operators()`
fn build_expr(ops: &[usize], unary_at: Option<usize>, shape_at: (usize, usize), fill_before: &str, fill_after: &str) -> Option<Vec<Piece>> {
    let all = operators();
    let shapes = operand_shapes();
    let mut v: Vec<Piece> = Vec::new();
    let operand = |pos: usize| -> Vec<Piece> {
        if pos == shape_at.0 {
            shapes[shape_at.1].clone()
        } else {
            shapes[0].clone()
        }
    };
    v.extend(operand(0));
    for (k, &oi) in ops.iter().enumerate() {
        let op = &all[oi];
        if op.unary {
            return None;
        }
        let next = operand(k + 1);
        let next_text = &next[0].text;
        // blanks are mandatory around mnemonics; `&` directly followed by a name would be a
        // macro variable reference
        // (a mnemonic may be glued to the dot that terminates a macro variable reference)
        let prev_dot = v.last().is_some_and(|pc: &Piece| pc.text.ends_with('.') && pc.text.starts_with('&'));
        // '%' directly followed by '=', '^' or '~' would spell a %-quoted operator
        let prev_pct = v.last().is_some_and(|pc: &Piece| pc.text.ends_with('%'));
        let before = if (op.mnemonic && !prev_dot || prev_pct) && fill_before.is_empty() { " " } else { fill_before };
        let mut after = if op.mnemonic && fill_after.is_empty() { " " } else { fill_after };
        let un = unary_at.filter(|u| *u == k).map(|_| &all[all.len() - 1 - (k % 7)]);
        let after_owner_text = un.map_or(next_text.as_str(), |u| u.text);
        if op.text == "&" && after.is_empty() && after_owner_text.chars().next().is_some_and(|c| c.is_alphabetic() || c == '_' || c == '&') {
            after = " ";
        }
        v.push(gap(before));
        v.push(p(op.text, Kind::Op(op.ty)));
        v.push(gap(after));
        if let Some(u) = un {
            v.push(p(u.text, Kind::Op(u.ty)));
            v.push(gap(if u.mnemonic { " " } else { "" }));
        }
        v.extend(next);
    }
    Some(v)
}

const EXPR_HOSTS: &[(&str, &str)] = &[
    ("%eval(", ")"),
    ("%if ", " %then %put a;"),
    ("%do i=", " %to 5; %end;"),
    ("%do i=1 %to ", "; %end;"),
    ("%do i=1 %to 9 %by ", "; %end;"),
    ("%do %while(", "); %end;"),
    ("%sysevalf(", ")"),
    ("%sysfunc(f(", "))"),
    ("%scan(a,", ")"),
    ("%substr(a,", ",1)"),
    ("%substr(a,1,", ")"),
    // later arguments of the function inside %sysfunc: each follows the comma of an expression
    // argument and gets its flags from the dispatcher, not from the call set-up
    ("%sysfunc(f(1,", "))"),
    ("%qsysfunc(f(1,2,", "),best.)"),
    // the routine arguments of %syscall
    ("%syscall f(", ");"),
    ("%syscall f(a,", ",b);"),
];

pub fn flatten(pieces: &[Piece]) -> String {
    pieces.iter().map(|p| p.text.as_str()).collect()
}

pub fn c13_check(pieces: &[Piece], v: &View) -> Vec<String> {
    let mut out = Vec::new();
    if !v.tiles() {
        return out;
    }
    let mut off = 0u32;
    // token start -> index
    let start_of = |o: u32| v.toks.iter().position(|t| t.start == o && t.end > t.start);
    for pc in pieces {
        let len = pc.text.len() as u32;
        match &pc.kind {
            Kind::Delim(ty, ch) => match start_of(off) {
                Some(i) if v.toks[i].ty == *ty && v.toks[i].end == off + len => {
                    if v.toks[i].ch != *ch {
                        out.push(format!("delimiter.channel:{ty:?}"));
                    }
                }
                other => out.push(format!(
                    "delimiter.not-a-token:{ty:?}/got={:?}",
                    other.map(|i| v.toks[i].ty)
                )),
            },
            Kind::Op(ty) => match start_of(off) {
                Some(i) if v.toks[i].ty == *ty && v.toks[i].end == off + len && v.toks[i].ch == Ch::DEFAULT => {}
                other => out.push(format!("operator.not-a-token:{ty:?}/got={:?}", other.map(|i| v.toks[i].ty))),
            },
            Kind::Int(val) => match start_of(off) {
                Some(i)
                    if v.toks[i].ty == T::IntegerLiteral
                        && v.toks[i].end == off + len
                        && v.toks[i].payload == Payload::Integer(*val) => {}
                other => out.push(format!("operand.not-an-integer:got={:?}", other.map(|i| v.toks[i].ty))),
            },
            Kind::Masked => {
                for (k, c) in pc.text.char_indices() {
                    if matches!(c, ',' | '=' | ';' | '(' | ')') {
                        if let Some(i) = start_of(off + k as u32) {
                            if matches!(v.toks[i].ty, T::COMMA | T::ASSIGN | T::SEMI | T::LPAREN | T::RPAREN) {
                                out.push(format!("masked.is-a-delimiter:{:?}", v.toks[i].ty));
                            }
                        }
                    }
                }
            }
            Kind::Gap => {
                if len > 0 {
                    // every byte of the gap is covered by WS (hidden) or C-style comment tokens
                    let covered = v.toks.iter().filter(|t| t.end > off && t.start < off + len).all(|t| {
                        (t.ty == T::WS && t.ch == Ch::HIDDEN || t.ty == T::CStyleComment && t.ch == Ch::COMMENT)
                            && t.start >= off
                            && t.end <= off + len
                    });
                    if !covered {
                        out.push("gap.not-hidden".to_string());
                    }
                }
            }
            Kind::Word => match start_of(off) {
                Some(i) if v.toks[i].ty == T::MacroString && v.toks[i].end == off + len => {}
                other => out.push(format!("operand.word-split:got={:?}", other.map(|i| v.toks[i].ty))),
            },
            Kind::Other => {}
        }
        off += len;
    }
    for e in v.errors {
        out.push(format!("wellformed.error:{:?}", e.error_kind()));
        break;
    }
    out
}

struct CallHead {
    head: &'static str,
    model: ArgModel,
    hidden: bool,
    /// fixed argument positions that are expressions (index -> true) are filled with `1`
    min_args: usize,
    max_args: usize,
}

const CALL_HEADS: &[CallHead] = &[
    CallHead { head: "%m", model: ArgModel::Named, hidden: false, min_args: 0, max_args: 3 },
    CallHead { head: "%\u{e9}t\u{e9}", model: ArgModel::Named, hidden: false, min_args: 0, max_args: 2 },
    CallHead { head: "%verify", model: ArgModel::Named, hidden: false, min_args: 1, max_args: 3 },
    CallHead { head: "%cmpres", model: ArgModel::Positional, hidden: false, min_args: 1, max_args: 3 },
    CallHead { head: "%qleft", model: ArgModel::Positional, hidden: false, min_args: 1, max_args: 2 },
    CallHead { head: "%upcase", model: ArgModel::OneMasking, hidden: false, min_args: 1, max_args: 3 },
    CallHead { head: "%index", model: ArgModel::OneMasking, hidden: false, min_args: 1, max_args: 2 },
    CallHead { head: "%superq", model: ArgModel::OneMasking, hidden: false, min_args: 1, max_args: 2 },
];

fn c13_items(tier: Tier) -> Vec<Vec<Piece>> {
    let q = tier == Tier::Quick;
    let mut items: Vec<Vec<Piece>> = Vec::new();
    let fillers: &[&str] = FILLERS;
    for h in CALL_HEADS {
        let max = if q { h.max_args.min(2) } else { h.max_args };
        for args in arg_lists(h.model, max) {
            if args.len() < h.min_args {
                continue;
            }
            // inside %str / %nrstr a '%*' is text, not a macro comment
            if h.hidden && args.iter().any(|(_, s)| value_shapes()[*s].0.iter().any(|p| p.text.contains("%*"))) {
                continue;
            }
            for f in fillers {
                let mut pcs = vec![other("%let x=")];
                pcs.extend(build_call(h.head, h.model, &args, f, h.hidden));
                pcs.push(other(";"));
                items.push(pcs);
            }
            // the same call inside a '*' statement of a macro definition (not a comment there)
            if h.head == "%m" && args.len() <= 2 {
                let mut pcs = vec![other("%macro q; * ")];
                pcs.extend(build_call(h.head, h.model, &args, "", h.hidden));
                pcs.push(other("; %mend;"));
                items.push(pcs);
            }
        }
    }
    // definitions
    for args in arg_lists(ArgModel::Named, if q { 2 } else { 3 }) {
        for f in fillers {
            items.push(build_def(&args, f));
        }
    }
    // %scan / %substr / %sysfunc / %sysevalf: fixed expression positions
    let shapes = value_shapes();
    for (si, (shape, _)) in shapes.iter().enumerate() {
        for f in fillers {
            for head in ["%scan", "%qscan", "%kscan", "%qkscan"] {
                // %scan(value, 1, value [, value])
                for extra in 0..=(if q { 0 } else { 1 }) {
                    let mut v = vec![other("%put "), other(head), gap(f), delim("(", T::LPAREN), gap(f)];
                    v.extend(shape.iter().cloned());
                    v.push(delim(",", T::COMMA));
                    v.push(gap(f));
                    v.push(p("1", Kind::Int(1)));
                    v.push(delim(",", T::COMMA));
                    v.push(gap(f));
                    v.extend(shapes[(si + 3) % shapes.len()].0.iter().cloned());
                    if extra == 1 {
                        v.push(delim(",", T::COMMA));
                        v.push(gap(f));
                        v.push(other("m"));
                    }
                    v.push(delim(")", T::RPAREN));
                    v.push(other(";"));
                    items.push(v);
                }
            }
            for head in ["%substr", "%qsubstr", "%ksubstr", "%qksubstr"] {
                let mut v = vec![other("%put "), other(head), gap(f), delim("(", T::LPAREN), gap(f)];
                v.extend(shape.iter().cloned());
                v.push(delim(",", T::COMMA));
                v.push(gap(f));
                v.push(p("2", Kind::Int(2)));
                v.push(delim(",", T::COMMA));
                v.push(gap(f));
                v.push(p("3", Kind::Int(3)));
                v.push(delim(")", T::RPAREN));
                v.push(other(";"));
                items.push(v);
            }
            // %str / %nrstr: hidden parentheses, everything inside is text
            for head in ["%str", "%nrstr"] {
                if shape.iter().any(|pc| pc.text.contains("%*")) {
                    continue; // inside %str / %nrstr a '%*' is text, not a macro comment
                }
                let inner: Vec<Piece> = shape
                    .iter()
                    .map(|pc| {
                        // nested calls keep their own delimiters only in %str (not %nrstr)
                        if head == "%nrstr" {
                            masked(&pc.text)
                        } else {
                            pc.clone()
                        }
                    })
                    .collect();
                if head == "%nrstr" && flatten(&inner).contains("%)") {
                    // `%)` inside keeps being an escape: fine, still masked
                }
                let mut v = vec![other("%let x="), other(head), hdelim("(", T::LPAREN)];
                v.extend(inner);
                v.push(masked(",a=b"));
                v.push(hdelim(")", T::RPAREN));
                v.push(other(";"));
                items.push(v);
            }
        }
    }
    // %sysfunc(f(e1, e2), fmt) and %sysevalf(e, type)
    for f in fillers {
        for e in operand_shapes() {
            let mut v = vec![other("%put "), other("%sysfunc"), gap(f), delim("(", T::LPAREN), gap(f), other("f"), gap(f), delim("(", T::LPAREN), gap(f)];
            v.extend(e.iter().cloned());
            v.push(delim(",", T::COMMA));
            v.push(gap(f));
            v.push(p("(", Kind::Op(T::LPAREN)));
            v.push(masked("1,2"));
            v.push(p(")", Kind::Op(T::RPAREN)));
            v.push(delim(")", T::RPAREN));
            v.push(gap(f));
            v.push(delim(",", T::COMMA));
            v.push(gap(f));
            v.push(other("best."));
            v.push(delim(")", T::RPAREN));
            v.push(other(";"));
            items.push(v);
            let mut v = vec![other("%put "), other("%sysevalf"), gap(f), delim("(", T::LPAREN), gap(f)];
            v.extend(e.iter().cloned());
            v.push(delim(",", T::COMMA));
            v.push(gap(f));
            v.push(other("ceil"));
            v.push(delim(")", T::RPAREN));
            v.push(other(";"));
            items.push(v);
        }
    }
    // expressions
    let nops = operators().len();
    let nbin = operators().iter().filter(|o| !o.unary).count();
    let max_ops = if q { 2 } else { 3 };
    let before_f: &[&str] = &["", " "];
    let after_f: &[&str] = if q { &["", " "] } else { &["", " ", " /*c*/\n"] };
    // around a single operator every combination of the gap shapes (comment glued to the operator,
    // comment then blank, Unicode blank ...)
    let rich_f: &[&str] = &["", " ", "/*c*/", "/*c*/ ", " /*c*/ ", "\u{a0}", "/*a*//*b*/", "\n"];
    let mut seqs: Vec<Vec<usize>> = vec![vec![]];
    let mut level: Vec<Vec<usize>> = vec![vec![]];
    for _ in 0..max_ops {
        let mut next = Vec::new();
        for l in &level {
            for o in 0..nbin {
                let mut n = l.clone();
                n.push(o);
                next.push(n);
            }
        }
        seqs.extend(next.iter().cloned());
        level = next;
    }
    let _ = nops;
    let nshapes = operand_shapes().len();
    for (hi, (hp, hs)) in EXPR_HOSTS.iter().enumerate() {
        for seq in &seqs {
            // for long sequences vary host by rotation to bound the product
            if seq.len() == 3 && (seq[0] + seq[1] + seq[2]) % EXPR_HOSTS.len() != hi {
                continue;
            }
            for pos in 0..=seq.len() {
                for sh in 0..nshapes {
                    if sh == 0 && pos > 0 {
                        continue; // all-integer variant emitted once
                    }
                    for un in [None, if seq.is_empty() { None } else { Some(seq.len() - 1) }] {
                        if un.is_some() && (sh != 0 || seq.len() == 3) {
                            continue;
                        }
                        // (a comment directly after an operand is a documented limitation of the
                        // lexer: it cannot know whether the operand continues behind the comment and
                        // keeps operand and blanks as text; so comments only after the operator)
                        let plain_f: &[&str] = &["", " ", "\u{a0}", "\n"];
                        let (bf, af): (&[&str], &[&str]) = if seq.len() <= 1 { (plain_f, rich_f) } else { (before_f, after_f) };
                        for fb in bf {
                            for fa in af {
                                if seq.len() == 3 && !(fb.is_empty() && fa.is_empty()) && (pos + sh) % 2 == 1 {
                                    continue;
                                }
                                if let Some(e) = build_expr(seq, un, (pos, sh), fb, fa) {
                                    // blanks between the host's opener and the first operand, and
                                    // between the last operand and the host's closer, are hidden too
                                    // (short expressions only, to bound the product)
                                    let edges: &[(&str, &str)] = if seq.len() <= 1 && fb.is_empty() {
                                        &[("", ""), (" ", ""), ("\n ", " "), ("\u{a0}", ""), ("", " "), ("\t", "\n")]
                                    } else {
                                        &[("", "")]
                                    };
                                    for (lead, trail) in edges {
                                        // (a trailing blank before a keyword-terminated host is part
                                        // of the host's own suffix already)
                                        if !trail.is_empty() && hs.starts_with(' ') || !lead.is_empty() && hp.ends_with(' ') {
                                            continue;
                                        }
                                        let mut v = vec![other(hp), gap(lead)];
                                        v.extend(e.iter().cloned());
                                        v.push(gap(trail));
                                        v.push(other(hs));
                                        items.push(v);
                                    }
                                }
                            }
                        }
                    }
                }
            }
        }
    }
    // integer operands at the edges of the 64-bit ranges, alone in every integer-mode host
    for (hp, hs) in EXPR_HOSTS {
        if hp.starts_with("%sysevalf") || hp.contains("sysfunc") || hp.starts_with("%syscall") {
            continue;
        }
        for n in [9223372036854775807u64, 9223372036854775808, 18446744073709551615, 4294967296, 2147483648] {
            for (lead, trail) in [("", ""), (" ", " ")] {
                if !lead.is_empty() && hp.ends_with(' ') || !trail.is_empty() && hs.starts_with(' ') {
                    continue;
                }
                let stat = hp.starts_with("%do") || hp.starts_with("%if");
                let mut v = if stat { vec![other(hp)] } else { vec![other("%put "), other(hp)] };
                v.push(gap(lead));
                v.push(p(&n.to_string(), Kind::Int(n)));
                v.push(gap(trail));
                v.push(other(hs));
                if !stat {
                    v.push(other(";"));
                }
                items.push(v);
            }
        }
    }
    // what directly follows the keyword that ends an expression (%then, %to, %by): every kind of
    // blank, a comment, a character that is neither blank nor part of a name - the look-ahead that
    // recognises the keyword must end it where the keyword lexer does, or the operand before it is
    // no longer an integer followed by hidden blanks
    for (hp, kw, rest) in [
        ("%if ", "%then", "%put a;"),
        ("%if &a = ", "%then", "%put a;"),
        ("%do i=", "%to", "5; %end;"),
        ("%do i=1 %to ", "%by", "2; %end;"),
        ("%do i=1 %to ", "%By", "2; %end;"),
        ("%if ", "%THEN", "%do; %end;"),
    ] {
        for fb in [" ", "\n", "\u{a0}", "  ", "\t"] {
            for follower in [
                " ", "\n", "\t", "\r\n", "\u{a0}", "\u{3000}", "\u{b}", "\u{c}", "\u{85}", "\u{2028}", "\u{2003}", "/*c*/", "\u{200b}", "\u{feff}",
                "\u{ac}", "\u{2019}",
            ] {
                let mut v = vec![other(hp), p("10", Kind::Int(10)), gap(fb), other(kw), other(follower), other(rest)];
                items.push(std::mem::take(&mut v));
            }
        }
    }
    // an expression built-in with a parenthesised group nested inside another macro expression:
    // the group's level belongs to the inner expression
    for (wp, ws) in [("%put %eval(", ");"), ("%if ", "=a %then %put b;"), ("%put %sysfunc(f(", "));"), ("%do i=1 %to ", "; %end;"), ("%put %eval(1+", ");")] {
        for f in fillers {
            for (head, tail_int) in [("%substr", true), ("%qsubstr", true), ("%scan", false)] {
                let mut v = vec![other(wp), other(head), delim("(", T::LPAREN), gap(f), other("ab"), delim(",", T::COMMA), gap(f)];
                v.push(p("(", Kind::Op(T::LPAREN)));
                v.push(p("1", Kind::Int(1)));
                v.push(p(")", Kind::Op(T::RPAREN)));
                v.push(gap(f));
                if tail_int {
                    v.push(delim(",", T::COMMA));
                    v.push(gap(f));
                    v.push(p("1", Kind::Int(1)));
                } else {
                    v.push(delim(",", T::COMMA));
                    v.push(other("b"));
                }
                v.push(delim(")", T::RPAREN));
                v.push(other(ws));
                items.push(v);
            }
        }
    }
    // a ';' inside a parenthesised expression argument is text, not a terminator
    for (hp, hs) in EXPR_HOSTS {
        if !(hp.ends_with('(') || hp.ends_with(',')) {
            continue;
        }
        for (bi, body) in [
            vec![masked("1;2")],
            vec![masked("a;b")],
            vec![p("1", Kind::Int(1)), p("+", Kind::Op(T::PLUS)), masked("a;")],
            vec![masked(";")],
            vec![p("(", Kind::Op(T::LPAREN)), masked("1,2"), p(")", Kind::Op(T::RPAREN))],
            vec![p("(", Kind::Op(T::LPAREN)), masked(","), p(")", Kind::Op(T::RPAREN))],
            vec![other("&a in "), p("(", Kind::Op(T::LPAREN)), masked("1,2;3"), p(")", Kind::Op(T::RPAREN))],
        ]
        .into_iter()
        .enumerate()
        {
            // %sysevalf takes its conversion type after the first comma at any depth
            if bi >= 4 && hp.starts_with("%sysevalf") {
                continue;
            }
            let stat = hp.starts_with("%do") || hp.starts_with("%if") || hp.starts_with("%syscall");
            let mut v = if stat { vec![other(hp)] } else { vec![other("%put "), other(hp)] };
            v.extend(body);
            v.push(other(hs));
            if !stat {
                v.push(other(";"));
            }
            items.push(v);
        }
    }
    items
}

/// token types on the default channel, normalised for what the lexer documents as depending on
/// the neighbourhood: numeric operands count as text (an operand followed by a comment stays
/// text), text that is only white space is dropped (blanks inside argument values are text),
/// runs of text tokens are merged, zero-width virtual tokens are dropped
fn default_stream(src: &str, r: &LexResult) -> Vec<T> {
    let view = View::new(src, r);
    let mut v: Vec<T> = Vec::new();
    for t in &view.toks {
        if t.ch != Ch::DEFAULT {
            continue;
        }
        let mut ty = t.ty;
        if matches!(ty, T::MacroSep | T::MacroStringEmpty) {
            continue;
        }
        if matches!(ty, T::IntegerLiteral | T::FloatLiteral | T::FloatExponentLiteral) {
            ty = T::MacroString;
        }
        if ty == T::MacroString {
            let text = src.get(t.start as usize..t.end as usize).unwrap_or("");
            if !text.is_empty() && text.chars().all(char::is_whitespace) {
                continue;
            }
            if v.last() == Some(&T::MacroString) {
                continue;
            }
        }
        v.push(ty);
    }
    v
}

fn c13_run(cfg: &Config) -> PropRun {
    let ex = Explorer::new(cfg.threads, cfg.cap_s, if cfg.tier == Tier::Quick { 26 } else { 30 });
    let items = c13_items(cfg.tier);
    let mut report: Report = ex.run_list(
        "G13 (calls, definitions, built-ins, expressions with recorded delimiter map)",
        items.len() as u64,
        |i, buf| buf.push_str(&flatten(&items[i as usize])),
        |local, input, i| {
            local.lexer_runs += 1;
            match run_lexer(input) {
                Outcome::Ok(r) if !r.verif.budget_exceeded => {
                    let v = View::new(input, &r);
                    let pcs = &items[i as usize];
                    for s in c13_check(pcs, &v) {
                        local.finding(format!("C13 {s}"), input);
                    }
                    local.add(
                        "delimiters_checked",
                        pcs.iter().filter(|p| matches!(p.kind, Kind::Delim(..) | Kind::Op(_) | Kind::Int(_))).count() as u64,
                    );
                    local.add("masked_pieces_checked", pcs.iter().filter(|p| p.kind == Kind::Masked).count() as u64);
                    if i % 16 == 0 {
                        trace_program(local, input, &r);
                    }
                    Visit { cfg: Some(cfg_hash(&r)), nontrivial: pcs.iter().any(|p| p.kind == Kind::Masked) || pcs.len() > 8 }
                }
                _ => {
                    local.unobservable += 1;
                    local.finding("C13 wellformed.no-result".to_string(), input);
                    Visit { cfg: None, nontrivial: false }
                }
            }
        },
    );
    // Gap invariance over the chain grammar G: the gap markers stand where SAS ignores blanks
    // and comments, so whatever fills them goes to the hidden/comment channels and the stream
    // on the default channel (token types; adjacent text tokens merged) is the same for every
    // filler. Base line: the single blank.
    let d = if cfg.tier == Tier::Quick { 2 } else { 3 };
    let mut tmpls: Vec<String> = chains(d)[&'S'].clone();
    tmpls.extend(rare_templates(1));
    tmpls.extend(rare_leaf_templates());
    tmpls.retain(|t| t.contains(GAP));
    tmpls.sort();
    tmpls.dedup();
    let gi = ex.run_list(
        &format!("G.gap-invariance(chains of depth<={d} and the rare contexts, every filler against the single blank)"),
        tmpls.len() as u64,
        |i, buf| buf.push_str(&tmpls[i as usize]),
        |local, tmpl, _| {
            let mut base: Option<Vec<T>> = None;
            let mut src = String::new();
            for (k, f) in [1usize, 0, 2, 3, 4, 5, 6, 7].iter().map(|k| (*k, FILLERS[*k])) {
                src.clear();
                apply_filler(tmpl, f, &mut src);
                local.lexer_runs += 1;
                let Outcome::Ok(r) = run_lexer(&src) else {
                    local.unobservable += 1;
                    continue;
                };
                if r.verif.budget_exceeded {
                    local.unobservable += 1;
                    continue;
                }
                let sig = default_stream(&src, &r);
                match &base {
                    None => base = Some(sig),
                    Some(b) => {
                        if *b != sig {
                            let at = b.iter().zip(sig.iter()).position(|(x, y)| x != y).unwrap_or(b.len().min(sig.len()));
                            local.finding(
                                format!("C13 gap.changes-default-stream:filler{k}:{:?}/{:?}", b.get(at), sig.get(at)),
                                &src,
                            );
                        }
                    }
                }
            }
            Visit { cfg: None, nontrivial: true }
        },
    );
    report.absorb(gi);
    report.distinct_nontrivial = ex.distinct_nontrivial.load(std::sync::atomic::Ordering::Relaxed);
    PropRun {
        report,
        rule: "every call/definition of G13 (heads x argument lists of 0..3 arguments x optional name= x 18 value shapes x 3 gap fillers) and every expression (operator sequences of <= 3 operators over symbols and mnemonics in several letter cases x operand shapes x 11 hosts x gap fillers); every chain of G of depth <= 2 (thorough 3) and every rare context under all 8 gap fillers (gap invariance); non-trivial = contains masked text or more than 8 pieces".into(),
        oracle: "each recorded delimiter/operator/integer is exactly one token of the expected type and channel; no delimiter-type token starts inside masked text; gaps are covered by hidden/comment tokens only; no error; for the chain grammar: the default-channel token type sequence is the same whatever fills the gap markers".into(),
    }
}

// =============================================================================================
// C14: single mandatory-delimiter deletions

#[derive(Clone, Debug)]
pub struct Deletion {
    /// text before the deletion point (delimiter already removed)
    pub before: String,
    /// text after the deletion point
    pub after: String,
    pub error: E,
    pub token: T,
    /// where the error and the zero-width token are expected: offset into `before + after`
    pub at: usize,
    /// errors that the damaged construct may legitimately raise in addition
    pub allowed: Vec<E>,
    pub name: &'static str,
}

fn first_significant(s: &str, from: usize) -> usize {
    // skip blanks and complete C-style comments
    let b = s.as_bytes();
    let mut i = from;
    loop {
        while i < b.len() && (b[i] as char).is_whitespace() {
            i += 1;
        }
        if s[i..].starts_with("/*") {
            match s[i + 2..].find("*/") {
                Some(k) => i = i + 2 + k + 2,
                None => return s.len(),
            }
        } else {
            return i;
        }
    }
}

fn c14_items(tier: Tier) -> Vec<Deletion> {
    let mut v: Vec<Deletion> = Vec::new();
    let q = tier == Tier::Quick;
    let follow: &[&str] = &["", " x=1;", " %put a;", ")", ";", "\n%let b=2;", " %until(1);", "%while(&a);", " %do;", " %to 3;", " %then;", " %m(1)", "%end;"];
    let mut add = |name: &'static str, before: String, after: String, error: E, token: T, at_end_of: Option<usize>, allowed: Vec<E>| {
        let whole = format!("{before}{after}");
        let at = match at_end_of {
            Some(o) => o,
            None => first_significant(&whole, before.len()),
        };
        v.push(Deletion { before, after, error, token, at, allowed, name });
    };
    for f in FILLERS {
        // gap after the deleted delimiter must keep the neighbours apart when empty
        for fo in follow {
            // %let n=v;  (value starts with a non-name character so that names do not merge)
            for val in ["'v'", "&v", "(1)", "%m(1)", "1"] {
                for name in ["n", "&x", "&x.", "n&x", "n&x.", "%v", "n%v"] {
                    // a macro variable or macro call directly after the name continues the name;
                    // '(' directly after a macro call would be its argument list
                    if name.ends_with("%v") && val == "(1)" {
                        continue; // '(' after a macro call (even after blanks) is its argument list
                    }
                    // a name expression continues across comments: without a blank, a following
                    // digit / macro variable / macro call still belongs to the name
                    let glue = matches!(val, "1" | "&v" | "%m(1)");
                    let spaced = format!(" {f}");
                    let sep: &str = if glue && !f.contains(char::is_whitespace) { &spaced } else { f };
                    add("let-assign", format!("%let {name}{sep}"), format!("{val};{fo}"), E::MissingExpectedAssign, T::ASSIGN, None, vec![]);
                    add("do-assign", format!("%do {name}{sep}"), format!("{val} %to 3; %end;{fo}"), E::MissingExpectedAssign, T::ASSIGN, None, vec![]);
                    add(
                        "local-readonly-assign",
                        format!("%local / readonly {name}{sep}"),
                        format!("{val};{fo}"),
                        E::MissingExpectedAssign,
                        T::ASSIGN,
                        None,
                        vec![],
                    );
                }
            }
            // characters whose code point, truncated to one byte, is the deleted delimiter
            for alias in ["\u{43d}", "\u{13d}", "\u{4e3d}"] {
                for name in ["n", "&x."] {
                    let sep = if f.contains(char::is_whitespace) { (*f).to_string() } else { format!(" {f}") };
                    add("let-assign", format!("%let {name}{sep}"), format!("{alias};{fo}"), E::MissingExpectedAssign, T::ASSIGN, None, vec![]);
                    add("do-assign", format!("%do {name}{sep}"), format!("{alias} %to 3; %end;{fo}"), E::MissingExpectedAssign, T::ASSIGN, None, vec![]);
                }
            }
            for alias in ["\u{42f}", "\u{12f}", "\u{4e2f}"] {
                add(
                    "copy-slash",
                    format!("%copy m{}", if f.contains(char::is_whitespace) { (*f).to_string() } else { format!(" {f}") }),
                    format!("{alias}source;{fo}"),
                    E::MissingExpectedFSlash,
                    T::FSLASH,
                    None,
                    vec![],
                );
            }
            if !fo.is_empty() && !fo.starts_with(';') {
                for alias in ["\u{43b}", "\u{13b}"] {
                    let allowed_tail = vec![E::MissingExpectedSemiOrEOF];
                    let sep = if f.contains(char::is_whitespace) { (*f).to_string() } else { format!(" {f}") };
                    add("end-semi", format!("%do; %end{sep}"), format!("{alias}{fo}"), E::MissingExpectedSemiOrEOF, T::SEMI, None, allowed_tail.clone());
                    add("while-semi", format!("%do %while(&i<3){f}"), format!("{alias}{fo} %end;"), E::MissingExpectedSemiOrEOF, T::SEMI, None, allowed_tail);
                }
            }
            // the omitted delimiter directly followed by the ';' of the statement
            add("copy-slash", format!("%copy m{f}"), format!(";{fo}"), E::MissingExpectedFSlash, T::FSLASH, None, vec![]);
            add("let-assign", format!("%let n{f}"), format!(";{fo}"), E::MissingExpectedAssign, T::ASSIGN, None, vec![]);
            add("local-readonly-assign", format!("%local / readonly n{f}"), format!(";{fo}"), E::MissingExpectedAssign, T::ASSIGN, None, vec![]);
            add(
                "copy-slash",
                format!("%copy m{}", if f.contains(char::is_whitespace) { (*f).to_string() } else { format!(" {f}") }),
                format!("source;{fo}"),
                E::MissingExpectedFSlash,
                T::FSLASH,
                None,
                vec![],
            );
            if !fo.is_empty() && !fo.starts_with(';') {
                // the ';' after %end, %return, %do %while/%until(...)
                let allowed_tail = vec![E::MissingExpectedSemiOrEOF];
                add("end-semi", format!("%do; %end{f}"), (*fo).to_string(), E::MissingExpectedSemiOrEOF, T::SEMI, None, allowed_tail.clone());
                add("return-semi", format!("%return{f}"), (*fo).to_string(), E::MissingExpectedSemiOrEOF, T::SEMI, None, allowed_tail.clone());
                add("while-semi", format!("%do %while(&i<3){f}"), format!("{fo} %end;"), E::MissingExpectedSemiOrEOF, T::SEMI, None, allowed_tail.clone());
                add("until-semi", format!("%do %until(&i>3){f}"), format!("{fo} %end;"), E::MissingExpectedSemiOrEOF, T::SEMI, None, allowed_tail);
            }
        }
    }
    // '(' after every argument-taking built-in; ')' still open at end of input
    for (kw, t) in crate::spaces::macro_keywords() {
        if !crate::oracles::is_arg_taking_builtin(t) {
            continue;
        }
        let hidden = matches!(t, T::KwmStr | T::KwmNrStr);
        let head = format!("%{}", kw.to_ascii_lowercase());
        for f in FILLERS {
            for arg in ["&v", "'a'", "1", "(1)", "\u{428}", "\u{128}", "a b", "abc def, b", "a /*c*/ b"] {
                if arg == "(1)" {
                    continue; // would supply the parenthesis
                }
                let spaced = format!(" {f}");
                let sep: &str = if arg == "1" && f.is_empty() {
                    " "
                } else if (!arg.is_ascii() || arg.starts_with(|c: char| c.is_ascii_alphabetic())) && !f.contains(char::is_whitespace) {
                    &spaced
                } else {
                    f
                };
                for fo in [")", ");", ") x"] {
                    let mut allowed = vec![E::MissingExpectedRParen, E::MissingExpectedComma, E::MissingSysfuncFuncName, E::MissingExpectedLParen];
                    if hidden {
                        allowed.push(E::MissingExpectedRParen);
                    }
                    add(
                        "builtin-lparen",
                        format!("%let x={head}{sep}"),
                        format!("{arg}{fo}"),
                        E::MissingExpectedLParen,
                        T::LPAREN,
                        None,
                        allowed,
                    );
                }
            }
            // ')' open at end of input
            if !q || f.is_empty() {
                let bodies: &[&str] = match t {
                    T::KwmSysfunc | T::KwmQSysfunc => &["f(1)", "f((a,b))", "f((a,b),c)", "f(1),best.", "f(1, (2,3))"],
                    T::KwmScan | T::KwmQScan | T::KwmKScan | T::KwmQKScan => &["a,1", "(a,b),1", "a,(1)", "a,1,(b,c)", "a,(1,2)"],
                    T::KwmSubstr | T::KwmQSubstr | T::KwmKSubstr | T::KwmQKSubstr => &["a,1", "(a,b),1", "a,(1)", "a,(1,2)", "a,1,(2,3)"],
                    T::KwmEval | T::KwmSysevalf => &["1", "(1)", "(1)+(2)"],
                    _ => &["a", "(a,b)", "a (b,c) d", "'x'", "&v(b,c)"],
                };
                for body in bodies {
                    let whole = format!("{head}{f}({f}{body}");
                    let at = whole.len();
                    add("rparen-open-at-eof", whole, String::new(), E::MissingExpectedRParen, T::RPAREN, Some(at), vec![]);
                }
            }
        }
    }
    // user macro call and %syscall with ')' open at end of input
    for f in FILLERS {
        for body in ["a,b=1", "(a,b)", "k=(a,b)", "a,(b,c)", "k=(a,b),(c,d)", "a=(x;y)"] {
            let whole = format!("%m{f}({f}{body}");
            let at = whole.len();
            add("rparen-open-at-eof", whole, String::new(), E::MissingExpectedRParen, T::RPAREN, Some(at), vec![]);
        }
        for body in ["a", "a,b", "(a,b)", "a,(b,c)", "(a,b),c", "((a,b))"] {
            let whole = format!("%syscall f{f}({f}{body}");
            let at = whole.len();
            add("rparen-open-at-eof", whole, String::new(), E::MissingExpectedRParen, T::RPAREN, Some(at), vec![]);
        }
        for (head, body) in [("%do %while", "&i<3"), ("%do %while", "(&i<3)"), ("%do %until", "&i>3"), ("%do %until", "(&i) > (3)")] {
            let whole = format!("{head}{f}({f}{body}");
            let at = whole.len();
            add("rparen-open-at-eof", whole, String::new(), E::MissingExpectedRParen, T::RPAREN, Some(at), vec![]);
        }
    }
    // parentheses nested across the 2^8 and 2^16 thresholds, all still open at end of input
    for k in [1usize, 255, 256, 257, 65_535, 65_536, 65_537] {
        for head in ["%if ", "%eval(", "%m(", "%str(", "%let a=%sysevalf(", "%do i=1 %to ", "%m(a=", "%put %scan(a,"] {
            let whole = format!("{head}{}1", "(".repeat(k));
            let at = whole.len();
            let allowed = vec![E::MissingExpectedRParen, E::MissingExpectedSemiOrEOF];
            add("rparen-open-at-eof-deep", whole, String::new(), E::MissingExpectedRParen, T::RPAREN, Some(at), allowed);
        }
    }
    // the ',' after the first %scan/%substr argument: reported at the call's closing ')'
    for head in ["%scan", "%qscan", "%kscan", "%qkscan", "%substr", "%qsubstr", "%ksubstr", "%qksubstr"] {
        for f in FILLERS {
            for arg in [
                "a", "a b", "&v", "(x,y)", "%m(1)", "(&a,b)", "('x',y)", "(/*c*/x,y)", "(%m(1),y)", "(&a,b) c",
                // a group closed in a later text section that ends at a further section boundary
                "(&a)&b", "(&a)\"s\"", "(&a.x)/*c*/", "(%m(1),y)&z", "((&a)&b)&c",
            ] {
                for fo in ["", ";", " x"] {
                    let before = format!("%let x={head}{f}({f}{arg}");
                    let at = before.len();
                    add("scan-comma", before, format!("){fo}"), E::MissingExpectedComma, T::COMMA, Some(at), vec![]);
                }
            }
        }
    }
    // the same deletions directly after text the lexer rolls back over (a bare call followed by a
    // comment / an exotic blank), with non-ASCII characters and a line break in that text
    let base_n = v.len();
    // ... and inside other constructs: a macro definition body, after %then, after a macro label,
    // inside a %do block, after a complete statement
    for pre in ["%macro q; ", "%if 1 %then ", "%l: ", "%do; ", "x=1;\n", "%macro q(a=1); %if &a %then %do; "] {
        for k in 0..base_n {
            if v[k].name == "rparen-open-at-eof-deep" || !FILLERS[..3].iter().any(|f| v[k].before.contains(*f) || v[k].after.contains(*f)) && k % 4 != 0 {
                continue;
            }
            let mut d = v[k].clone();
            d.before = format!("{pre}{}", d.before);
            d.at += pre.len();
            v.push(d);
        }
    }
    for pre in ["%m /*\u{e9}*/ ", "\u{e9}=1; %m\u{a0}", "%m /*\u{20ac}\n*/\n"] {
        for k in 0..base_n {
            if v[k].name == "rparen-open-at-eof-deep" {
                continue;
            }
            let mut d = v[k].clone();
            d.before = format!("{pre}{}", d.before);
            d.at += pre.len();
            v.push(d);
        }
    }
    v
}

pub fn c14_check(d: &Deletion, v: &View) -> Vec<String> {
    let mut out = Vec::new();
    let at = d.at as u32;
    let err_here = v.errors.iter().any(|e| e.error_kind() == d.error && e.at_byte_offset() == at);
    if !err_here {
        let elsewhere = v.errors.iter().find(|e| e.error_kind() == d.error);
        out.push(match elsewhere {
            Some(e) => format!(
                "deletion.error-misplaced:{}:{:?}:{}",
                d.name,
                d.error,
                if e.at_byte_offset() < at { "before" } else { "after" }
            ),
            None => format!("deletion.not-diagnosed:{}:{:?}", d.name, d.error),
        });
    }
    let tok_here = v.toks.iter().any(|t| t.ty == d.token && t.start == at && t.end == at);
    if !tok_here {
        out.push(format!("deletion.no-recovery-token:{}:{:?}", d.name, d.token));
    }
    // "at the position where the delimiter should have been" holds in every coordinate the result
    // carries: character offset, line and column of the error, character start of the token
    let cat = v.src.get(..d.at).map_or(0, |p| p.chars().count()) as u32;
    let line = v.src.get(..d.at).map_or(0, |p| p.matches('\n').count()) as u32 + 1;
    let col = v.src.get(..d.at).map_or(0, |p| p.rsplit('\n').next().unwrap_or("").chars().count()) as u32;
    if let Some(e) = v.errors.iter().find(|e| e.error_kind() == d.error && e.at_byte_offset() == at) {
        if e.at_char_offset() != cat {
            out.push(format!("deletion.error-char-offset:{}:{:?}", d.name, d.error));
        }
        if e.on_line() != line || e.at_column() != col {
            out.push(format!("deletion.error-line-column:{}:{:?}", d.name, d.error));
        }
    }
    if let Some(t) = v.toks.iter().find(|t| t.ty == d.token && t.start == at && t.end == at) {
        if t.cstart != cat {
            out.push(format!("deletion.recovery-token-char-start:{}:{:?}", d.name, d.token));
        }
    }
    for e in v.errors {
        let k = e.error_kind();
        if k == d.error && e.at_byte_offset() == at {
            continue;
        }
        if !d.allowed.contains(&k) {
            out.push(format!("deletion.unrelated-error:{}:{k:?}", d.name));
            break;
        }
    }
    out
}

fn c14_run(cfg: &Config) -> PropRun {
    let ex = Explorer::new(cfg.threads, cfg.cap_s, 26);
    let items = c14_items(cfg.tier);
    let mut report = ex.run_list(
        "G14 (single mandatory-delimiter deletions)",
        items.len() as u64,
        |i, buf| {
            buf.push_str(&items[i as usize].before);
            buf.push_str(&items[i as usize].after);
        },
        |local, input, i| {
            local.lexer_runs += 1;
            match run_lexer(input) {
                Outcome::Ok(r) if !r.verif.budget_exceeded => {
                    let v = View::new(input, &r);
                    for s in c14_check(&items[i as usize], &v) {
                        local.finding(format!("C14 {s}"), input);
                    }
                    trace_program(local, input, &r);
                    Visit { cfg: Some(cfg_hash(&r)), nontrivial: true }
                }
                _ => {
                    local.unobservable += 1;
                    local.finding("C14 deletion.no-result".to_string(), input);
                    Visit { cfg: None, nontrivial: false }
                }
            }
        },
    );
    report.distinct_nontrivial = ex.distinct_nontrivial.load(std::sync::atomic::Ordering::Relaxed);
    PropRun {
        report,
        rule: "every single deletion of a mandatory delimiter in G14: '=' of %let / iterative %do / %local readonly, '(' after each argument-taking built-in, ',' after the first %scan/%substr argument, '/' of %copy, ';' after %end / %return / %do %while|%until(...), ')' open at end of input for every head; x gap fillers x following text; non-trivial = all".into(),
        oracle: "the matching MissingExpected* error at the expected offset, a zero-width token of the delimiter's type there, no unrelated error".into(),
    }
}

// =============================================================================================

pub fn run(prop: &'static str, cfg: &Config) -> PropRun {
    match prop {
        "C12" => c12_run(cfg),
        "C13" => c13_run(cfg),
        "C14" => c14_run(cfg),
        _ => unreachable!(),
    }
}

/// Replay: C12 takes the program text; C13/C14 take the index of the generated item
/// (`#<n>`) or, for free text, fall back to the C12-style check.
pub fn replay(prop: &str, input: &str) -> Option<Vec<String>> {
    let Outcome::Ok(r) = run_lexer(input) else { return None };
    match prop {
        "C12" => Some(c12_check(input, &r)),
        "C13" => {
            let v = View::new(input, &r);
            for tier in [Tier::Quick, Tier::Thorough] {
                if let Some(pcs) = c13_items(tier).into_iter().find(|p| flatten(p) == input) {
                    return Some(c13_check(&pcs, &v));
                }
            }
            Some(vec!["replay: input is not an item of G13".to_string()])
        }
        "C14" => {
            let v = View::new(input, &r);
            for tier in [Tier::Quick, Tier::Thorough] {
                if let Some(d) = c14_items(tier).into_iter().find(|d| format!("{}{}", d.before, d.after) == input) {
                    return Some(c14_check(&d, &v));
                }
            }
            Some(vec!["replay: input is not an item of G14".to_string()])
        }
        _ => None,
    }
}

//! C20 support: the input set handed to the Python oracle, and the "shadow binding" that performs
//! exactly the statements of `crates/sas-lexer-py/src/lib.rs` against the *workspace* lexer
//! (the real extension module links the published crate, so a change to the serialised structs of
//! the workspace crate would otherwise be invisible to the Python side).

use crate::explore::Space;
use crate::spaces::{self, Tier};

fn arg_value(args: &[String], key: &str) -> Option<String> {
    args.iter().position(|a| a == key).and_then(|i| args.get(i + 1).cloned())
}

fn words(space: &Space, out: &mut Vec<String>) {
    let mut level: Vec<String> = vec![String::new()];
    out.push(format!("{}{}", space.prefix, space.suffix));
    for _ in 0..space.max_len {
        let mut next = Vec::with_capacity(level.len() * space.atoms.len());
        for w in &level {
            for a in &space.atoms {
                next.push(format!("{w}{a}"));
            }
        }
        for w in &next {
            out.push(format!("{}{}{}", space.prefix, w, space.suffix));
        }
        level = next;
    }
}

pub fn inputs(tier: Tier, corpus_dir: &str) -> serde_json::Value {
    let n = if tier == Tier::Quick { 2 } else { 3 };
    let mut arbitrary: Vec<String> = Vec::new();
    for (name, atoms) in [("S2", spaces::S2), ("S4", spaces::S4), ("S5core", spaces::S5_CORE), ("S8", spaces::S8)] {
        words(&Space::new(name, atoms, n), &mut arbitrary);
    }
    if tier == Tier::Thorough {
        words(&Space::new("S1", spaces::S1, 3), &mut arbitrary);
        words(&Space::new("S7", spaces::S7, 3), &mut arbitrary);
    }
    for s in crate::templates::t7_spaces(Tier::Quick) {
        let mut s = s;
        s.max_len = if tier == Tier::Quick { 1 } else { 2 };
        words(&s, &mut arbitrary);
    }
    // every scanner template and nesting prefix with short fillers (line feeds, blanks, wide
    // characters inside each scanner), and a few long inputs across the 2^16 token threshold
    for mut s in crate::templates::t3_spaces(Tier::Quick).into_iter().chain(crate::templates::t4_spaces(Tier::Quick)) {
        s.max_len = if tier == Tier::Quick { 1 } else { 2 };
        words(&s, &mut arbitrary);
    }
    // multi-line operands, blanks and terminators inside the expression scanners (positions of
    // tokens emitted at a mark)
    for mut s in crate::templates::t4_spaces(Tier::Quick) {
        if ["%eval(", "%eval(1", "%if ", "%do i=1 %to ", "%scan(", "%sysfunc(f("].contains(&s.prefix.as_str()) {
            s.max_len = 4;
            words(&s, &mut arbitrary);
        }
    }
    for mut s in spaces::boundary_spaces(1) {
        s.max_len = 1;
        words(&s, &mut arbitrary);
    }
    for w in ["a=1;\n", "\u{e9} ", "%put a;\n", "/*c*/\n"] {
        arbitrary.push(w.repeat(257));
        if tier == Tier::Thorough {
            arbitrary.push(w.repeat(70_000));
        }
    }
    // the snippets of the repository's inline tests, alone and inside every nesting prefix
    arbitrary.extend(spaces::test_string_inputs(corpus_dir, tier, false));
    // 66 001 tokens: just past 2^16
    arbitrary.push("a=1;\n".repeat(13_200));
    arbitrary.sort();
    arbitrary.dedup();
    let wellformed = crate::grammar::programs(if tier == Tier::Quick { 2 } else { 3 }, true);
    let corpus: Vec<String> = spaces::load_corpus(corpus_dir).files.into_iter().map(|f| f.1).collect();
    serde_json::json!({"arbitrary": arbitrary, "wellformed": wellformed, "corpus": corpus})
}

#[cfg(feature = "pyshadow")]
fn shadow_bytes(src: &str) -> Result<Vec<u8>, String> {
    use sas_lexer::{lex_program, LexResult};
    use serde_bytes::Bytes;
    // the three statements of the binding
    let LexResult { buffer, errors, .. } = lex_program(&src).map_err(|e| e.to_string())?;
    let tok_vec = buffer.into_resolved_token_vec();
    rmp_serde::encode::to_vec(&(tok_vec, errors, Bytes::new(buffer.string_literals_buffer().as_bytes())))
        .map_err(|e| format!("Failed to serialize to msgpack: {e}"))
}

pub fn main(args: &[String]) {
    let tier = match arg_value(args, "--tier").as_deref() {
        Some("thorough") => Tier::Thorough,
        _ => Tier::Quick,
    };
    match args.get(1).map(String::as_str) {
        Some("c20-inputs") => {
            let corpus = arg_value(args, "--corpus").unwrap_or_else(|| "/verif/target/corpus".into());
            let out = arg_value(args, "--out").expect("--out");
            std::fs::write(out, serde_json::to_string(&inputs(tier, &corpus)).unwrap()).expect("write");
        }
        #[cfg(feature = "pyshadow")]
        Some("pyshadow") => {
            // input: JSON array of strings; output: for each, u32 LE length (0xFFFFFFFF = no
            // result: panic or error) followed by the msgpack bytes
            use std::io::Write;
            let path = arg_value(args, "--inputs").expect("--inputs");
            let out = arg_value(args, "--out").expect("--out");
            let inputs: Vec<String> = serde_json::from_str(&std::fs::read_to_string(path).expect("read")).expect("json");
            let mut f = std::io::BufWriter::new(std::fs::File::create(out).expect("create"));
            for s in &inputs {
                match std::panic::catch_unwind(|| shadow_bytes(s)) {
                    Ok(Ok(b)) => {
                        f.write_all(&(b.len() as u32).to_le_bytes()).unwrap();
                        f.write_all(&b).unwrap();
                    }
                    _ => f.write_all(&u32::MAX.to_le_bytes()).unwrap(),
                }
            }
            f.flush().unwrap();
        }
        _ => {
            eprintln!("pyshadow requires the `pyshadow` feature");
            std::process::exit(2);
        }
    }
}

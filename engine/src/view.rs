//! Running the real lexer on one input and a flat view of what it returned.

use crate::explore::hash64;
use sas_lexer::error::ErrorInfo;
use sas_lexer::{lex_program, LexResult, Payload, TokenChannel as Ch, TokenIdx, TokenType as T};
use std::panic::{self, AssertUnwindSafe};

pub enum Outcome {
    Ok(LexResult),
    Panic(String),
    /// `lex_program` returned `Err` (only `FileTooLarge` exists)
    Refused(String),
}

pub fn install_quiet_panic_hook() {
    panic::set_hook(Box::new(|_| {}));
}

pub fn panic_message(e: &(dyn std::any::Any + Send)) -> String {
    let msg = if let Some(m) = e.downcast_ref::<String>() {
        m.clone()
    } else if let Some(m) = e.downcast_ref::<&str>() {
        (*m).to_string()
    } else {
        "<non-string panic payload>".to_string()
    };
    msg.lines().next().unwrap_or("").chars().take(100).collect()
}

// ---------------------------------------------------------------------------------------------
// Watchdog: a lexer call that does not return (an endless loop inside one scanner is invisible to
// the iteration budget of hook H1, which counts main-loop iterations only) must not hang the
// engine. Every thread publishes "lexing since t, input at p/len" in its slot; a watchdog thread
// scans the slots and, when one call exceeds HANG_SECS, writes the input to the hang file and
// ends the process with exit code 3 (the stuck thread cannot be stopped any other way).

pub const HANG_SECS: u64 = 30;
pub const HANG_EXIT_CODE: i32 = 3;

struct Slot {
    since_ms: std::sync::atomic::AtomicU64,
    ptr: std::sync::atomic::AtomicUsize,
    len: std::sync::atomic::AtomicUsize,
    /// kernel thread id of the owner (from /proc/thread-self), 0 if unknown
    tid: u64,
}

/// user + system CPU time of thread `tid` of this process, in seconds
fn cpu_secs_of(tid: u64) -> Option<f64> {
    let st = std::fs::read_to_string(format!("/proc/self/task/{tid}/stat")).ok()?;
    let rest = &st[st.rfind(')')? + 2..];
    let f: Vec<&str> = rest.split(' ').collect();
    let ut: f64 = f.get(11)?.parse().ok()?;
    let stt: f64 = f.get(12)?.parse().ok()?;
    Some((ut + stt) / 100.0)
}

static SLOTS: std::sync::Mutex<Vec<std::sync::Arc<Slot>>> = std::sync::Mutex::new(Vec::new());
static HANG_FILE: std::sync::OnceLock<String> = std::sync::OnceLock::new();
static T0: std::sync::OnceLock<std::time::Instant> = std::sync::OnceLock::new();

fn now_ms() -> u64 {
    T0.get_or_init(std::time::Instant::now).elapsed().as_millis() as u64 + 1
}

/// Start the watchdog (once per process); `hang_file` receives a JSON object {"input": ...}.
pub fn start_watchdog(hang_file: &str) {
    use std::sync::atomic::Ordering::SeqCst;
    if HANG_FILE.set(hang_file.to_string()).is_err() {
        return;
    }
    let _ = now_ms();
    std::thread::spawn(|| {
        // A call counts as stuck when its thread has *burnt* HANG_SECS of CPU time inside it, not
        // when HANG_SECS of wall-clock time have passed: on a machine shared with other runs a
        // thread can be descheduled for a long time inside a call that takes microseconds (seen
        // once: a false "did not return within 60 s" under a load of 90 on 16 cores). The first
        // time a call is seen older than 2 s of wall time, the CPU time of its thread is noted;
        // the call is declared hung when that thread has used HANG_SECS more since. Where the
        // thread's CPU time cannot be read, ten times HANG_SECS of wall time decide.
        let mut seen: std::collections::HashMap<usize, (u64, Option<f64>)> = std::collections::HashMap::new();
        loop {
        std::thread::sleep(std::time::Duration::from_millis(500));
        let now = now_ms();
        let slots: Vec<std::sync::Arc<Slot>> = SLOTS.lock().map(|g| g.clone()).unwrap_or_default();
        for (si, s) in slots.iter().enumerate() {
            let since = s.since_ms.load(SeqCst);
            if since == 0 || now.saturating_sub(since) <= 2000 {
                seen.remove(&si);
                continue;
            }
            let cpu_now = if s.tid != 0 { cpu_secs_of(s.tid) } else { None };
            let first = *seen.entry(si).or_insert((since, cpu_now));
            if first.0 != since {
                seen.insert(si, (since, cpu_now));
                continue;
            }
            let stuck = match (first.1, cpu_now) {
                (Some(c0), Some(c1)) => c1 - c0 > HANG_SECS as f64,
                _ => now.saturating_sub(since) > 10 * HANG_SECS * 1000,
            };
            if stuck {
                let (p, l) = (s.ptr.load(SeqCst), s.len.load(SeqCst));
                // the owning thread is stuck inside the lexer call that borrows this text
                let bytes = unsafe { std::slice::from_raw_parts(p as *const u8, l) };
                let input = String::from_utf8_lossy(bytes).to_string();
                if s.since_ms.load(SeqCst) != since {
                    continue; // it returned in the meantime
                }
                let doc = serde_json::json!({"input": input, "seconds": HANG_SECS});
                if let Some(f) = HANG_FILE.get() {
                    let _ = std::fs::write(f, doc.to_string());
                }
                eprintln!("HANG: the lexer did not return within {HANG_SECS} s of CPU time on an input of {l} bytes");
                std::process::exit(HANG_EXIT_CODE);
            }
        }
        }
    });
}

thread_local! {
    static MY_SLOT: std::sync::Arc<Slot> = {
        let s = std::sync::Arc::new(Slot {
            since_ms: std::sync::atomic::AtomicU64::new(0),
            ptr: std::sync::atomic::AtomicUsize::new(0),
            len: std::sync::atomic::AtomicUsize::new(0),
            tid: std::fs::read_link("/proc/thread-self")
                .ok()
                .and_then(|p| p.file_name().and_then(|n| n.to_str().and_then(|t| t.parse().ok())))
                .unwrap_or(0),
        });
        if let Ok(mut g) = SLOTS.lock() {
            g.push(s.clone());
        }
        s
    };
}

pub fn run_lexer(src: &str) -> Outcome {
    use std::sync::atomic::Ordering::SeqCst;
    MY_SLOT.with(|s| {
        s.ptr.store(src.as_ptr() as usize, SeqCst);
        s.len.store(src.len(), SeqCst);
        s.since_ms.store(now_ms(), SeqCst);
    });
    let out = run_lexer_inner(src);
    MY_SLOT.with(|s| s.since_ms.store(0, SeqCst));
    out
}

fn run_lexer_inner(src: &str) -> Outcome {
    match panic::catch_unwind(AssertUnwindSafe(|| lex_program(&src))) {
        Ok(Ok(r)) => Outcome::Ok(r),
        Ok(Err(e)) => Outcome::Refused(format!("{e:?}")),
        Err(e) => Outcome::Panic(panic_message(&*e)),
    }
}

/// Hash of the end-of-input configuration (hook H2) plus the look-behind state the lexer
/// consults: the types of the last token and of the last default-channel token.
pub fn cfg_hash(r: &LexResult) -> u64 {
    let mut last = None;
    let mut last_default = None;
    // the buffer ends with the tokens `finalize_lexing` appended; configuration is taken before
    // them, so look only at tokens that start before the end of input or are not virtual closers.
    // For the purpose of a coverage measure the final real token types are good enough.
    for (_, ti) in r.buffer.iter_tokens_infos() {
        if ti.token_type() == T::EOF {
            break;
        }
        last = Some(ti.token_type() as u16);
        if ti.channel() == Ch::DEFAULT {
            last_default = Some(ti.token_type() as u16);
        }
    }
    hash64(&(&r.verif.end, last, last_default))
}

pub fn cfg_of(src: &str) -> Option<u64> {
    match run_lexer(src) {
        Outcome::Ok(r) => Some(cfg_hash(&r)),
        _ => None,
    }
}

pub fn is_closed(r: &LexResult) -> bool {
    let e = &r.verif.end;
    e.mode_stack.len() == 1
        && e.mode_stack[0] == "Default"
        && e.macro_nesting_level == 0
        && e.pending_stat.len() == 1
        && !e.pending_stat[0]
        && !e.checkpoint_live
        && !r.verif.budget_exceeded
}

#[derive(Clone, Copy, Debug, PartialEq)]
pub struct Tok {
    pub ty: T,
    pub ch: Ch,
    pub start: u32,
    pub end: u32,
    pub cstart: u32,
    pub payload: Payload,
}

pub struct View<'a> {
    pub src: &'a str,
    pub res: &'a LexResult,
    pub toks: Vec<Tok>,
    pub idx: Vec<TokenIdx>,
    pub errors: &'a [ErrorInfo],
    /// byte length of a leading BOM (0 or 3)
    pub b0: u32,
}

impl<'a> View<'a> {
    pub fn new(src: &'a str, res: &'a LexResult) -> View<'a> {
        let infos: Vec<_> = res.buffer.iter_tokens_infos().collect();
        let mut toks = Vec::with_capacity(infos.len());
        let mut idx = Vec::with_capacity(infos.len());
        for (i, (ti_idx, ti)) in infos.iter().enumerate() {
            let end = infos
                .get(i + 1)
                .map_or(ti.byte_offset().get(), |n| n.1.byte_offset().get());
            toks.push(Tok {
                ty: ti.token_type(),
                ch: ti.channel(),
                start: ti.byte_offset().get(),
                end,
                cstart: ti.start().get(),
                payload: ti.payload(),
            });
            idx.push(*ti_idx);
        }
        View {
            src,
            res,
            toks,
            idx,
            errors: &res.errors,
            b0: if src.starts_with('\u{feff}') { 3 } else { 0 },
        }
    }

    /// Raw text of token i; `None` when the recorded range is not a valid slice of the source
    pub fn text(&self, i: usize) -> Option<&'a str> {
        let t = &self.toks[i];
        if t.start > t.end {
            return None;
        }
        self.src.get(t.start as usize..t.end as usize)
    }

    /// true if ranges are sane enough for text-based oracles (C02 holds structurally)
    pub fn tiles(&self) -> bool {
        let mut pos = self.b0;
        for t in &self.toks {
            if t.start != pos || t.end < t.start || !self.src.is_char_boundary(t.start as usize) {
                return false;
            }
            pos = t.end;
        }
        pos as usize == self.src.len()
            && self.toks.last().map_or(false, |t| t.ty == T::EOF)
    }

    pub fn has_error_naming(&self, kind: sas_lexer::error::ErrorKind, tok: usize) -> bool {
        self.errors.iter().any(|e| {
            e.error_kind() == kind && e.last_token().map(|t| t.get() as usize) == Some(tok)
        })
    }

    pub fn has_error_at(&self, kind: sas_lexer::error::ErrorKind, off: u32) -> bool {
        self.errors
            .iter()
            .any(|e| e.error_kind() == kind && e.at_byte_offset() == off)
    }
}

// ---------------------------------------------------------------------------------------------
// Position model (DESIGN 4.1), computed from the source text alone

pub struct PosIndex<'a> {
    src: &'a str,
    b0: usize,
    /// byte offsets at which lines start (first entry: after the BOM)
    line_starts: Vec<u32>,
    /// for non-ASCII sources: code points before each byte offset (len + 1 entries)
    cp_map: Option<Vec<u32>>,
}

impl<'a> PosIndex<'a> {
    pub fn new(src: &'a str) -> PosIndex<'a> {
        let b0 = if src.starts_with('\u{feff}') { 3 } else { 0 };
        let mut line_starts = vec![b0 as u32];
        for (i, b) in src.bytes().enumerate() {
            if b == b'\n' {
                line_starts.push(i as u32 + 1);
            }
        }
        let cp_map = if src.is_ascii() {
            None
        } else {
            let mut m = vec![0u32; src.len() + 1];
            let mut k = 0u32;
            for (i, c) in src.char_indices() {
                for slot in &mut m[i..i + c.len_utf8()] {
                    *slot = k;
                }
                k += 1;
            }
            m[src.len()] = k;
            Some(m)
        };
        PosIndex { src, b0, line_starts, cp_map }
    }
    /// code points before byte offset o (o on a char boundary)
    pub fn cp(&self, o: usize) -> u32 {
        match &self.cp_map {
            None => o as u32,
            Some(m) => m[o],
        }
    }
    /// (line (1-based), column (0-based)) of byte offset o
    pub fn line_col(&self, o: usize) -> (u32, u32) {
        // number of line feeds strictly before o = number of line starts <= o that are > b0 ...
        // line_starts[0] is the start of line 1 (after the BOM); a position inside the BOM
        // cannot occur for tokens or errors.
        let idx = match self.line_starts.binary_search(&(o as u32)) {
            Ok(i) => i,
            Err(i) => i.saturating_sub(1),
        };
        let ls = self.line_starts[idx] as usize;
        let ls = if o < ls { o } else { ls };
        (idx as u32 + 1, self.cp(o) - self.cp(ls))
    }
    /// end position of a token [s, e)
    pub fn end_line_col(&self, s: usize, e: usize) -> (u32, u32) {
        if e <= s {
            return self.line_col(s);
        }
        let last = self.src[..e].char_indices().next_back().map_or(0, |(i, _)| i);
        let (l, c) = self.line_col(last);
        (l, c + 1)
    }
    pub fn line_count(&self) -> u32 {
        self.line_starts.len() as u32
    }
    pub fn b0(&self) -> usize {
        self.b0
    }
}

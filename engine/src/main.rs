//! lexmc - bounded exhaustive exploration of the real sas-lexer against property oracles.
//! See /verif/DESIGN.md. The driver `/verif/check` builds this crate in the variants a property
//! needs and interprets the JSON result this binary writes.

mod canon;
mod digest;
mod explore;
mod grammar;
mod known;
mod numref;
mod oracles;
mod props;
mod pyshadow;
mod ref11;
mod sched;
mod spaces;
mod templates;
mod view;

use serde_json::json;
use spaces::Tier;

fn arg_value(args: &[String], key: &str) -> Option<String> {
    args.iter().position(|a| a == key).and_then(|i| args.get(i + 1).cloned())
}

fn build_name(args: &[String]) -> String {
    arg_value(args, "--build-name").unwrap_or_else(|| {
        format!(
            "{}-{}",
            if cfg!(debug_assertions) { "dbg" } else { "rel" },
            if cfg!(feature = "macro_sep") { "sep" } else { "nosep" },
        )
    })
}

const PROPS: &[&str] = &[
    "C01", "C02", "C03", "C04", "C05", "C06", "C07", "C08", "C09", "C10", "C11", "C12", "C13", "C14", "C15",
    "C16", "C17", "C18",
];

fn main() {
    let args: Vec<String> = std::env::args().collect();
    view::install_quiet_panic_hook();
    if let Ok(f) = std::env::var("LEXMC_HANG_FILE") {
        view::start_watchdog(&f);
    }
    let cmd = args.get(1).map(String::as_str).unwrap_or("");
    if let Some(k) = arg_value(&args, "--known") {
        known::load(&k);
    }
    match cmd {
        "run" => {
            let prop_s = arg_value(&args, "--property").expect("--property");
            let prop: &'static str = PROPS.iter().find(|p| **p == prop_s).copied().expect("unknown property");
            let tier = match arg_value(&args, "--tier").as_deref() {
                Some("thorough") => Tier::Thorough,
                _ => Tier::Quick,
            };
            let cfg = props::Config {
                tier,
                threads: arg_value(&args, "--threads").and_then(|s| s.parse().ok()).unwrap_or(16),
                cap_s: arg_value(&args, "--cap-s").and_then(|s| s.parse().ok()),
                corpus_dir: arg_value(&args, "--corpus").unwrap_or_else(|| "/verif/target/corpus".into()),
                only_spaces: arg_value(&args, "--spaces")
                    .map(|s| s.split(',').map(str::to_string).collect())
                    .unwrap_or_default(),
            };
            let out_path = arg_value(&args, "--out").expect("--out");
            let run = props::run_property(prop, &cfg);
            let rep = &run.report;
            let findings: Vec<_> = rep
                .total
                .findings
                .iter()
                .map(|(sig, f)| json!({"signature": sig, "count": f.count, "witness": f.witness, "space": f.space}))
                .collect();
            let spaces_json: Vec<_> = rep
                .spaces
                .iter()
                .map(|s| {
                    json!({"name": s.name, "atoms": s.atoms, "prefix": s.prefix, "suffix": s.suffix,
                           "max_len": s.max_len, "largest_level_completed": s.levels_completed,
                           "inputs": s.inputs, "expected_inputs": s.expected_inputs, "exhaustive": s.exhaustive})
                })
                .collect();
            let maxima: serde_json::Map<String, serde_json::Value> = rep
                .total
                .maxima
                .iter()
                .map(|(k, v)| ((*k).to_string(), json!({"value": v.0, "input": v.1})))
                .collect();
            let counters: serde_json::Map<String, serde_json::Value> =
                rep.total.counters.iter().map(|(k, v)| ((*k).to_string(), json!(v))).collect();
            let mut samples = rep.total.nontrivial_samples.clone();
            samples.extend(rep.total.samples.iter().cloned());
            samples.truncate(12);
            // dispatch coverage (hook H6): which (top mode, checkpoint live?, next character class)
            // triples the main loop dispatched on, over all explored inputs
            let mut cover_rows: Vec<serde_json::Value> = Vec::new();
            let mut covered = 0usize;
            {
                use sas_lexer::verif::{cover_index_pub, CLASS_NAMES, MODE_NAMES};
                for (mi, mname) in MODE_NAMES.iter().enumerate() {
                    for ck in [false, true] {
                        let classes: Vec<&str> = CLASS_NAMES
                            .iter()
                            .enumerate()
                            .filter(|(ci, _)| {
                                let idx = cover_index_pub(mi, ck, *ci);
                                rep.total.cover[idx / 64] >> (idx % 64) & 1 == 1
                            })
                            .map(|(_, n)| *n)
                            .collect();
                        covered += classes.len();
                        if !classes.is_empty() {
                            let missing: Vec<&str> = CLASS_NAMES.iter().filter(|n| !classes.contains(n)).copied().collect();
                            cover_rows.push(json!({"mode": mname, "checkpoint_live": ck, "classes_seen": classes.len(), "classes_not_seen": missing}));
                        }
                    }
                }
            }
            let doc = json!({
                "dispatch_coverage": {"triples_covered": covered, "rows": cover_rows},
                "property": prop,
                "tier": if tier == Tier::Quick { "quick" } else { "thorough" },
                "build": build_name(&args),
                "evaluations": rep.total.evaluations,
                "lexer_runs": rep.total.lexer_runs,
                "nontrivial": rep.total.nontrivial,
                "distinct_nontrivial": rep.distinct_nontrivial,
                "unobservable": rep.total.unobservable,
                "states": rep.total.states.len(),
                "transitions": rep.total.transitions.len(),
                "rule": run.rule,
                "oracle": run.oracle,
                "capped": rep.capped,
                "exhaustive": !rep.capped && rep.spaces.iter().all(|s| s.exhaustive),
                "wall_s": rep.wall_s,
                "spaces": spaces_json,
                "maxima": maxima,
                "counters": counters,
                "samples": samples,
                "findings": findings,
            });
            std::fs::write(&out_path, serde_json::to_string_pretty(&doc).unwrap()).expect("write result");
            println!(
                "lexmc {} {} build={} evaluations={} states={} transitions={} findings={} capped={} wall={:.1}s",
                prop,
                if tier == Tier::Quick { "quick" } else { "thorough" },
                build_name(&args),
                rep.total.evaluations,
                rep.total.states.len(),
                rep.total.transitions.len(),
                rep.total.findings.len(),
                rep.capped,
                rep.wall_s
            );
        }
        "scale-probe" => {
            // crash triage: runs every scale input one after the other on a thread with the
            // default 2 MiB stack, announcing each index first, so that a process killed by a
            // signal (stack overflow, abort) leaves the index of the input that did it
            let tier = if args.get(2).map(String::as_str) == Some("thorough") { spaces::Tier::Thorough } else { spaces::Tier::Quick };
            let only: Option<usize> = arg_value(&args, "--print").and_then(|s| s.parse().ok());
            let items = props::scale_inputs(tier);
            if let Some(i) = only {
                let mut buf = String::new();
                props::make_scale_pub(&items[i], &mut buf);
                println!("{}", serde_json::to_string(&buf).unwrap());
                return;
            }
            let h = std::thread::spawn(move || {
                use std::io::Write;
                for (i, it) in items.iter().enumerate() {
                    println!("PROBE {i}");
                    let _ = std::io::stdout().flush();
                    let mut buf = String::new();
                    props::make_scale_pub(it, &mut buf);
                    let _ = view::run_lexer(&buf);
                }
                println!("PROBE done");
            });
            let _ = h.join();
        }
        "scale-times" => {
            // ad-hoc: time every scale input under one property's oracle
            let prop: &'static str = Box::leak(args.get(2).cloned().unwrap_or_else(|| "C02".into()).into_boxed_str());
            let tier = if args.get(3).map(String::as_str) == Some("thorough") { spaces::Tier::Thorough } else { spaces::Tier::Quick };
            let items = props::scale_inputs(tier);
            for it in &items {
                let mut buf = String::new();
                props::make_scale_pub(it, &mut buf);
                let t0 = std::time::Instant::now();
                let oc = view::run_lexer(&buf);
                let t1 = t0.elapsed().as_secs_f64();
                let t0 = std::time::Instant::now();
                drop(oc);
                let td = t0.elapsed().as_secs_f64();
                if td > 0.2 {
                    println!("  drop of the result took {td:.2}s");
                }
                let t0 = std::time::Instant::now();
                let _ = props::check_one(prop, &buf, None);
                let t2 = t0.elapsed().as_secs_f64();
                if t2 > 1.0 {
                    println!("{:?} x{} bytes={} lex={:.2}s lex+oracle={:.2}s", it.0, it.1, buf.len(), t1, t2);
                }
            }
        }
        "replay" => {
            let prop = arg_value(&args, "--property").expect("--property");
            let input = match arg_value(&args, "--input-file") {
                Some(p) => std::fs::read_to_string(p).expect("read input"),
                None => arg_value(&args, "--input").expect("--input or --input-file"),
            };
            let first = props::replay(&prop, &input);
            let second = props::replay(&prop, &input);
            if first != second {
                println!("NONDETERMINISTIC replay: {first:?} vs {second:?}");
                std::process::exit(3);
            }
            println!("input: {input:?}");
            if prop != "C15" {
                digest::print_dump(&input);
            }
            match first {
                None => {
                    println!("result: not observable (lexer did not return a result; see C01)");
                    std::process::exit(if prop == "C01" { 1 } else { 0 });
                }
                Some(sigs) if sigs.is_empty() => println!("result: property {prop} holds on this input"),
                Some(sigs) => {
                    for s in &sigs {
                        println!("FAILED clause: {prop} {s}");
                    }
                    std::process::exit(1);
                }
            }
        }
        "digest" | "digest-chunk" | "digest-list" | "history-inputs" | "scale-inputs" | "history" => digest::main(&args),
        "sched" => sched::main(&args),
        "enums" => {
            use strum::IntoEnumIterator;
            let tt: serde_json::Map<String, serde_json::Value> =
                sas_lexer::TokenType::iter().map(|t| (t.to_string(), json!(t as u16))).collect();
            let ch: serde_json::Map<String, serde_json::Value> =
                sas_lexer::TokenChannel::iter().map(|t| (t.to_string(), json!(t as u8))).collect();
            let ek: serde_json::Map<String, serde_json::Value> =
                sas_lexer::error::ErrorKind::iter().map(|t| (t.to_string(), json!(t as u16))).collect();
            println!("{}", json!({"token_type": tt, "channel": ch, "error_kind": ek}));
        }
        "c20-inputs" | "pyshadow" => pyshadow::main(&args),
        "dump" => {
            let input = match arg_value(&args, "--input-file") {
                Some(p) => std::fs::read_to_string(p).expect("read input"),
                None => arg_value(&args, "--input").expect("--input"),
            };
            digest::print_dump(&input);
        }
        _ => {
            eprintln!("usage: lexmc run --property Cxx --tier quick|thorough --out FILE | replay --property Cxx --input-file FILE | digest ... | dump --input S");
            std::process::exit(2);
        }
    }
}

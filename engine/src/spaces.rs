//! Atom alphabets (DESIGN 3.2). One atom = one lexical event for the mode machine.

use crate::explore::Space;
use sas_lexer::TokenType as T;
use strum::IntoEnumIterator;

#[derive(Clone, Copy, PartialEq, Eq, Debug)]
pub enum Tier {
    Quick,
    Thorough,
}

pub const S1: &[&str] = &[
    "%let ", "%put ", "%local ", "%global ", "%goto ", "%if ", "%then ", "%else ", "%do", "%to ",
    "%by ", "%while", "%until", "%end", "%macro ", "%mend", "%return", "%abort ", "%include ",
    "%copy ", "%syscall ", "%m", "(", ")", "=", ",", ";", " ", "a", "1", "&v", ":", "/", "%",
];

pub const S2: &[&str] = &[
    "%m", "%n", "(", ")", ",", "=", " ", "\n", "a", "1", "&v", "&v.", "&", "%str", "%nrstr",
    "%upcase", "%scan", "'", "\"", "/*c*/", "%*", ";", "%", "%%", "%(", "%)", "/", "%let ",
    "%macro ", "%if ", "%*c;",
];

pub const S3: &[&str] = &[
    "%eval", "%sysevalf", "%sysfunc", "%if ", "%then ", "%do ", "%to ", "%by ", "%while", "(", ")",
    ",", ";", " ", "1", "1.5", "0fx", "a", "&v", "'s'", "\"", "/*c*/", "%", "%m", "+", "-", "*",
    "/", "<", "=", "^", "#", "|", "eq ", "NE ", "and ", "not ", "in ",
];

pub const S4: &[&str] = &[
    "\"", "\"\"", "'", "''", "a", " ", "\n", "&v", "&v.", "&&", "&", "%", "%m", "%m(", ")", "(",
    "%let ", ";", "x", "d", "t", "b", "n", "41", ",", "%str(", "%nrstr(", "%'", "%\"", "é",
];

pub const S5: &[&str] = &[
    " ", "\n", "a", "x", "e", "d", "b", "t", "n", "f", "_", "1", "0", "9", ".", "'", "\"", ";",
    "/", "*", "&", "%", "=", "<", ">", "!", "|", "¦", "^", "¬", "$", "(", ")", ",", ":", "+", "-",
    "{", "#", "@", "?", "\\", "é", "€", "\u{a0}", "datalines", "cards4", ";;;;", "data", "eq", "\0", "correspondingly",
];

/// One representative per Unicode property a character test could be written with instead of
/// the intended one: numeric but not an ASCII digit (Nd, No, Nl), alphabetic outside the BMP
/// (4 bytes and a name character), 4 bytes and no name character, case-fold look-alikes, blanks
/// and line breaks that are not ' ' / LF, marks, format characters, NUL.
pub const EXOTIC_CHARS: &[&str] = &[
    "\u{ff11}", "\u{663}", "\u{b2}", "\u{bd}", "\u{2167}", "\u{2460}", "\u{20bb7}", "\u{1d4b3}", "\u{1f600}", "\u{e9}", "\u{20ac}", "\u{a0}",
    "\u{3000}", "\u{2003}", "\u{301}", "\u{200b}", "\u{2028}", "\u{85}", "\r", "\u{b}", "\u{c}", "\0", "\u{feff}", "\u{131}", "\u{17f}", "\u{df}",
    "\u{212a}", "\u{fb01}", "\u{2019}", "\u{ac}", "\u{436}", "\u{4e2d}",
];

/// Every (open-code or macro) atom directly followed / preceded by every exotic character, with a
/// few continuations: the complete product, so that "this symbol before that character class" is
/// never a matter of which atoms happen to share an alphabet.
pub fn exotic_pair_inputs() -> Vec<String> {
    let mut hosts: Vec<&str> = S5.to_vec();
    hosts.extend([
        "%m", "&v", "&v.", "%let q=", "%put ", "%let ", "$", "$a", "x=", "1.", "1e", "0f", "'a'", "\"a\"", "%eval(1", "%m(", "%m(a", "%str(", "%if a ", "%then", "%do i=1 %to",
        "%macro ", "%macro m(", "/*c*/", "*c;", "%*c;", "a.", "a b", "datalines;\n", "%l:",
    ]);
    let tails = ["", "a", ".", "(", ";", "8.", "1", "=1;", " a", ")", "\n"];
    let mut v = Vec::new();
    for h in &hosts {
        for x in EXOTIC_CHARS {
            for t in tails {
                v.push(format!("{h}{x}{t}"));
                v.push(format!("{x}{h}{t}"));
                v.push(format!("{h}{x}{x}{t}"));
                v.push(format!("a {h}{x}{t}"));
            }
        }
    }
    v.sort();
    v.dedup();
    v
}

/// S5 without the five least connected atoms (thorough tier at N = 5)
pub const S5_CORE: &[&str] = &[
    " ", "\n", "a", "x", "e", "d", "b", "t", "n", "f", "_", "1", "0", "9", ".", "'", "\"", ";",
    "/", "*", "&", "%", "=", "<", ">", "!", "|", "¦", "^", "¬", "$", "(", ")", ",", ":", "+", "-",
    "#", "é", "\u{a0}", "datalines", "cards4", ";;;;", "data", "eq",
];

pub const S6: &[&str] = &["0", "1", "9", "5", ".", "e", "E", "+", "-", "x", "X", "a", "F", " ", "%"];

pub const S7: &[&str] = &[
    "\n", " ", "a", ";", "'", "\"", "/*", "*/", "*", "%*", "%m", "(", ")", ",", "=", "%let ",
    "%put ", "%str(", "%eval(", "&v", "datalines;", ";;;;", "cards4;", "%macro ", "%mend;",
    "%if ",
];

pub const DL_FAMILY: &[&str] = &[
    "datalines", "datalines4", "cards", "cards4", "lines", "lines4", ";", "\n", " ", "a", ";;;;", "x", "/*c*/", "4", "\u{b}", "\u{a0}",
    // a complete block, so that what follows it is within reach
    "cards;\n1\n;", "*",
];

pub const S8: &[&str] = &[
    "a", "é", "€", "😀", "\u{20bb7}", "\u{a0}", "\u{feff}", "\n", " ", "'", "\"", ";", "/*", "*/", "*", "%*",
    "%m", "(", ")", "&v", "%let ", "$", ".", "1", "datalines;",
];

/// 20 well connected atoms used inside nesting prefixes (seeded spaces)
pub const SEED_ATOMS: &[&str] = &[
    "%m", "(", ")", ",", "=", ";", " ", "\n", "a", "1", "&v", "\"", "'", "/*c*/", "%", "%let ",
    "%do", "%end", "%str(", "*", "%*c;", "datalines;", "cards4",
];

/// nesting prefixes and closers (DESIGN 1.3 item 2)
pub const SEEDS: &[(&str, &[&str])] = &[
    ("%macro m; ", &["", " %mend;"]),
    ("%macro m(", &["", "); %mend;"]),
    ("%m(", &["", ")"]),
    ("%m(a=", &["", ");"]),
    ("%let a=", &["", ";"]),
    ("%put ", &["", ";"]),
    ("\"", &["", "\";"]),
    ("\"&v ", &["", "\";"]),
    ("%if ", &["", " %then %put a;"]),
    ("%if a %then ", &["", ";"]),
    ("%sysfunc(f(", &["", "))"]),
    ("%sysfunc(f(1),", &["", ")"]),
    ("%eval(", &["", ")"]),
    ("%sysevalf(", &["", ",ceil)"]),
    ("%str(", &["", ")"]),
    ("%nrstr(", &["", ")"]),
    ("%do i=1 %to ", &["", "; %end;"]),
    ("%do ", &["", ";"]),
    ("%do %while(", &["", "); %end;"]),
    ("data a; x=", &["", "; run;"]),
    ("%scan(", &["", ",1)"]),
    ("%scan(a,", &["", ")"]),
    ("%substr(a,1,", &["", ")"]),
    ("%upcase(", &["", ")"]),
    ("%local / readonly ", &["", "=1;"]),
    ("%copy ", &["", "/ source;"]),
    ("%syscall f(", &["", ");"]),
    ("%let a=%str(", &["", ");"]),
    ("%m(%n(", &["", "))"]),
    ("%macro m; %if a %then %do; ", &["", " %end; %mend;"]),
    ("cards4;\n", &["", ";;;;"]),
    ("%macro m(a", &["", "); %mend;"]),
    ("%sysfunc(f(1)", &["", ")"]),
    ("%m(%n()", &["", ")"]),
    ("%m(a ", &["", ")"]),
    ("x %lbl:", &["", ";"]),
    // two labels in the middle of one statement (each receives a separator in the macro_sep build)
    ("a %x:b %y:c ", &["", ";"]),
    // a label directly followed by constructs that take a checkpoint of their own
    ("%lbl:%verify(", &["", ")"]),
    ("%lbl: %macro m(", &["", "); %mend;"]),
    ("%lbl: ", &["", ";"]),
    ("%if a %then %lbl:", &["", ";"]),
    ("* ", &["", ";"]),
    ("%* ", &["", ";"]),
    ("/* ", &["", "*/"]),
];

/// All macro keywords with their `%`, derived from the token type enumeration
/// (independent of the generated `phf` maps).
pub fn macro_keywords() -> Vec<(String, T)> {
    let mut v = Vec::new();
    for t in T::iter() {
        let n = t.to_string();
        if let Some(rest) = n.strip_prefix("Kwm") {
            v.push((rest.to_ascii_uppercase(), t));
            if rest == "Include" {
                v.push(("INC".to_string(), t));
            }
        }
    }
    v
}

/// "Fold-alike" spellings: every keyword (open-code keywords, macro keywords, expression
/// mnemonics, in-stream data keywords, literal suffixes) with one occurrence of a letter (or
/// letter pair) replaced by a non-ASCII character whose *Unicode* upper- or lower-case mapping
/// is that ASCII letter (dotless i, long s, Kelvin sign, sharp s, the Latin ligatures) or by its
/// full-width form. A keyword look-up that folds case with the Unicode tables instead of the
/// ASCII ones would take these for the keyword. Returns (host with `{}`, word) pairs.
pub fn fold_alike_words() -> Vec<(String, String)> {
    const SUBST: &[(&str, &[&str])] = &[
        ("I", &["\u{131}", "\u{130}", "\u{ff29}", "\u{ff49}"]),
        ("S", &["\u{17f}", "\u{ff33}"]),
        ("K", &["\u{212a}", "\u{ff2b}"]),
        ("SS", &["\u{df}", "\u{1e9e}"]),
        ("FI", &["\u{fb01}"]),
        ("FL", &["\u{fb02}"]),
        ("FF", &["\u{fb00}"]),
        ("ST", &["\u{fb06}", "\u{fb05}"]),
        ("N", &["\u{ff2e}", "\u{149}"]),
        ("A", &["\u{ff21}", "\u{1e9a}"]),
        ("E", &["\u{ff25}"]),
        ("T", &["\u{ff34}", "\u{1e97}"]),
        ("X", &["\u{ff38}"]),
        ("D", &["\u{ff24}"]),
        ("B", &["\u{ff22}"]),
        ("O", &["\u{ff2f}"]),
        ("L", &["\u{ff2c}"]),
        ("J", &["\u{1f0}"]),
        ("H", &["\u{1e96}"]),
        ("W", &["\u{1e98}"]),
        ("Y", &["\u{1e99}"]),
    ];
    let variants = |w: &str| -> Vec<String> {
        let up = w.to_ascii_uppercase();
        let mut out = Vec::new();
        for (pat, reps) in SUBST {
            let mut from = 0;
            while let Some(k) = up[from..].find(pat) {
                let at = from + k;
                for r in *reps {
                    // keep the case of the rest of the word as given (lower case)
                    out.push(format!("{}{}{}", &w[..at], r, &w[at + pat.len()..]));
                }
                from = at + 1;
            }
        }
        out
    };
    let mut v: Vec<(String, String)> = Vec::new();
    let mut add = |host: &str, w: &str| {
        for x in variants(w) {
            v.push((host.to_string(), x));
        }
    };
    for (kw, _) in keywords() {
        let w = kw.to_ascii_lowercase();
        add("{}", &w);
        add("a {} b;", &w);
    }
    for w in ["datalines", "cards", "lines", "datalines4", "cards4", "lines4", "parmcards", "parmcards4"] {
        add("{};\n1 2\n;", w);
        add("x; {};\n1 2\n;;;;", w);
    }
    for sfx in ["b", "d", "dt", "n", "t", "x"] {
        add("'41'{}", sfx);
        add("\"41\"{}", sfx);
        add("\"&v.41\"{}", sfx);
    }
    for h in ["0afx", "1e5", "1.5e-3"] {
        add("x={};", h);
        add("%eval({})", h);
    }
    for (kw, t) in macro_keywords() {
        let w = format!("%{}", kw.to_ascii_lowercase());
        add("{}", &w);
        if is_macro_stat_kw(t) {
            add("{} a=1;", &w);
        } else {
            add("%let x={}(a,1);", &w);
        }
    }
    for m in ["eq", "ne", "lt", "le", "gt", "ge", "and", "or", "not", "in"] {
        add("%if a {} b %then %put c;", m);
        add("%eval(1 {} 2)", m);
        add("%sysevalf(1.5 {} 2)", m);
    }
    for w in ["readonly"] {
        add("%local / {} a=1;", w);
    }
    // the identifier spelled like the *name* of a keyword token type whose keyword is spelled
    // differently (KwAllVar is `_ALL_`, KwNullDataset `_NULL_`, KwmInclude also `%inc`): a keyword
    // table derived from the variant names would contain them
    for t in T::iter() {
        let n = t.to_string();
        if let Some(rest) = n.strip_prefix("Kwm") {
            for host in ["{}", "{} a=1;", "%let x={}(a,1);"] {
                v.push((host.to_string(), format!("%{}", rest.to_ascii_lowercase())));
            }
        } else if let Some(rest) = n.strip_prefix("Kw") {
            for host in ["{}", "a {} b;"] {
                v.push((host.to_string(), rest.to_ascii_lowercase()));
                v.push((host.to_string(), format!("_{}_", rest.to_ascii_lowercase())));
            }
        } else {
            v.push(("{}".to_string(), n.to_ascii_lowercase()));
        }
    }
    v
}

/// Open-code keywords, upper case (DESIGN 4.5 rule 7)
pub fn keywords() -> Vec<(String, T)> {
    let mut v = Vec::new();
    for t in T::iter() {
        let n = t.to_string();
        if n.starts_with("Kw") && !n.starts_with("Kwm") {
            match n.as_str() {
                "KwAllVar" => v.push(("_ALL_".to_string(), t)),
                "KwNullDataset" => v.push(("_NULL_".to_string(), t)),
                "KwCorr" => {
                    v.push(("CORR".to_string(), t));
                    v.push(("CORRESPONDING".to_string(), t));
                }
                "KwExecute" => {
                    v.push(("EXEC".to_string(), t));
                    v.push(("EXECUTE".to_string(), t));
                }
                _ => v.push((n[2..].to_ascii_uppercase(), t)),
            }
        }
    }
    v
}

pub fn is_macro_stat_kw(t: T) -> bool {
    (t as u16) >= (T::KwmAbort as u16) && (t as u16) <= (T::KwmRun as u16)
}

/// S9: union alphabet (every macro keyword, every symbol, literal suffixes, mnemonics, S1-S8)
pub fn s9() -> Vec<String> {
    let mut v: Vec<String> = Vec::new();
    let mut push = |s: String| {
        if !v.contains(&s) {
            v.push(s);
        }
    };
    for (kw, t) in macro_keywords() {
        let lower = kw.to_ascii_lowercase();
        if is_macro_stat_kw(t) {
            push(format!("%{lower} "));
            if matches!(
                t,
                T::KwmDo | T::KwmEnd | T::KwmMend | T::KwmReturn | T::KwmRun | T::KwmElse
                    | T::KwmThen | T::KwmList | T::KwmSysmstoreclear
            ) {
                push(format!("%{lower}"));
            }
        } else {
            push(format!("%{lower}"));
        }
    }
    for s in [
        "*", "(", ")", "{", "}", "[", "]", "!", "¦", "|", "¬", "^", "~", "∘", "+", "-", "<", ">",
        ".", ",", ":", "=", "$", "@", "#", "?", "&", "%", "/", ";", "'", "\"", "\\", "`",
    ] {
        push(s.to_string());
    }
    for s in ["b", "d", "dt", "n", "t", "x", "e", "f"] {
        push(s.to_string());
    }
    for s in ["eq ", "ne ", "lt ", "le ", "gt ", "ge ", "and ", "or ", "not ", "in "] {
        push(s.to_string());
    }
    for set in [S1, S2, S3, S4, S5, S7, S8] {
        for s in set {
            push((*s).to_string());
        }
    }
    v
}

/// 80-atom core of S9 (thorough tier, N = 4): S1 ∪ S2 ∪ the string/expression atoms
pub fn s9_core() -> Vec<String> {
    let mut v: Vec<String> = Vec::new();
    for set in [S1, S2, S3, S4] {
        for s in set {
            let s = (*s).to_string();
            if !v.contains(&s) && v.len() < 80 {
                v.push(s);
            }
        }
    }
    v
}

/// Boundary representatives: one atom per size constant / character-class predicate visible in
/// the code (keyword buffers of MAX_KEYWORDS_LEN / MAX_MKEYWORDS_LEN bytes, ASCII vs Unicode
/// whitespace, 1-4 byte characters, CR LF), explored inside every nesting prefix and every
/// scanner template.
pub fn boundary_atoms() -> Vec<String> {
    let maxk = keywords().iter().map(|k| k.0.len()).max().unwrap_or(13);
    let maxm = macro_keywords().iter().map(|k| k.0.len()).max().unwrap_or(14);
    // the longest keywords themselves and one character more: a truncated look-up would match
    let longest_kw = keywords().iter().map(|k| k.0.clone()).max_by_key(String::len).unwrap_or_default().to_ascii_lowercase();
    let longest_mkw = macro_keywords().iter().map(|k| k.0.clone()).max_by_key(String::len).unwrap_or_default().to_ascii_lowercase();
    vec![
        format!("{longest_kw}ly"),
        format!("%{longest_mkw}x"),
        format!("%{}", "q".repeat(maxm)),
        format!("%{}", "q".repeat(maxm + 1)),
        // a SAS name of the maximal length (32) and one character more
        "n2345678901234567890123456789012".to_string(),
        "n23456789012345678901234567890123".to_string(),
        "k".repeat(maxk),
        "k".repeat(maxk + 1),
        "\u{a0}".to_string(),
        "\u{3000}".to_string(),
        "\t".to_string(),
        "\r\n".to_string(),
        "😀".to_string(),
        "a".to_string(),
        " ".to_string(),
        "=".to_string(),
        "%m".to_string(),
        "(".to_string(),
        ")".to_string(),
        ",".to_string(),
        ";".to_string(),
        "&v".to_string(),
        "1".to_string(),
        "\"".to_string(),
        // the cursor's end-of-input sentinel is '\0': a real NUL in the text must stay a character
        "\0".to_string(),
        // one representative per remaining character class of the dispatchers (hook H6 showed
        // these classes were never seen in the macro definition / tail argument modes)
        ".".to_string(),
        "$".to_string(),
        "<".to_string(),
        "+".to_string(),
        ":".to_string(),
        "^".to_string(),
        "é".to_string(),
        "/".to_string(),
        "&".to_string(),
    ]
}

/// atoms of macro expressions, explored inside every expression host (operators glued to
/// operands, to macro variable terminators, to parentheses ...)
pub const EXPR_ATOMS: &[&str] = &[
    "&v.", "&v", "eq", "ne ", "and ", "not ", "in ", "or", "ge", "1", "a", " ", "+", "(", ")", "%m", "'s'", ",", ";",
    "=", "%", "<", "*", "/", "1.5", "0fx", "\n", "/*c*/",
];

pub const EXPR_HOSTS: &[(&str, &str)] = &[
    ("%eval(", ")"),
    ("%sysevalf(", ")"),
    ("%if ", " %then;"),
    ("%do i=", " %to 2; %end;"),
    ("%do i=1 %to ", ";"),
    ("%do %while(", ");"),
    ("%sysfunc(f(", "))"),
    ("%scan(a,", ")"),
    ("%substr(a,1,", ")"),
    ("%let x=%eval(", ");"),
];

pub fn expr_spaces(n: usize) -> Vec<Space> {
    EXPR_HOSTS
        .iter()
        .enumerate()
        .map(|(i, (p, s))| Space::seeded(&format!("expr{i:02}[{}..{}]", p.escape_debug(), s.escape_debug()), p, s, EXPR_ATOMS, n))
        .collect()
}

pub fn boundary_spaces(n: usize) -> Vec<Space> {
    let atoms = boundary_atoms();
    let a: Vec<&str> = atoms.iter().map(String::as_str).collect();
    let mut v = Vec::new();
    let mut ctx: Vec<(&str, &str)> = Vec::new();
    for (p, closers) in SEEDS {
        ctx.push((p, closers[closers.len() - 1]));
    }
    for (p, s) in crate::templates::SCANNER_TEMPLATES {
        if !ctx.contains(&(*p, *s)) {
            ctx.push((p, s));
        }
    }
    for (i, (p, s)) in ctx.iter().enumerate() {
        v.push(Space::seeded(&format!("bound{i:02}[{}..{}]", p.escape_debug(), s.escape_debug()), p, s, &a, n));
    }
    v
}

/// Non-ASCII letters whose code point truncated to one byte is a character the lexer dispatches
/// on (`\n` blank `"` `%` `&` `'` `(` `)` `*` `,` `.` `/` `;` `=`), with a few ASCII companions:
/// a comparison made on a truncated code point would take them for that character.
pub const ALIAS_ATOMS: &[&str] = &[
    "\u{40a}", "\u{420}", "\u{422}", "\u{425}", "\u{426}", "\u{427}", "\u{428}", "\u{429}", "\u{42a}", "\u{42c}",
    "\u{42e}", "\u{42f}", "\u{43b}", "\u{43d}", " ", "a", "%m", "&v", ";", "1",
    // line-break and blank look-alikes that are not '\n' / ' ': lone CR, form feed, NEL, LINE
    // SEPARATOR; a combining mark and a zero-width space (neither blank nor name character)
    "\r", "\u{c}", "\u{85}", "\u{2028}", "\u{301}", "\u{200b}", "\u{b}",
];

pub fn alias_spaces(n: usize) -> Vec<Space> {
    let mut v = Vec::new();
    let mut ctx: Vec<(&str, &str)> = Vec::new();
    for (p, closers) in SEEDS {
        ctx.push((p, closers[closers.len() - 1]));
    }
    for (p, s) in crate::templates::SCANNER_TEMPLATES {
        if !ctx.contains(&(*p, *s)) {
            ctx.push((p, s));
        }
    }
    for (i, (p, s)) in ctx.iter().enumerate() {
        v.push(Space::seeded(&format!("alias{i:02}[{}..{}]", p.escape_debug(), s.escape_debug()), p, s, ALIAS_ATOMS, n));
    }
    v
}

/// Comment shapes whose opener and closer overlap or whose body looks like a delimiter
/// (`/*/:*/` is one comment although `/*/` reads like a complete one; `/**/` is empty), with
/// the tokens a hand-written look-ahead would search for after skipping a comment.
pub const COMMENT_ATOMS: &[&str] = &[
    "/*/:*/", "/**/", "/*/*/", "/***/", "/*;*/", "/*'*/", "/*\"*/", "/*\n*/", "/*(*/", "/*)*/", "/*=*/", "/*,*/", "*/", "/*", "a ", "%m", "%l", ":",
    ";", "=", "(", ")", ",", "&v", " ", "%let ", "1",
];

pub const CMT_BODY: &[&str] = &["/*", "*/", "*", "/", "\n", "\r\n", " ", "a", ";", "'", "\""];

pub fn comment_spaces(n: usize) -> Vec<Space> {
    let mut v = Vec::new();
    let mut ctx: Vec<(&str, &str)> = vec![("", ""), ("x ", ";")];
    for (p, closers) in SEEDS {
        ctx.push((p, closers[closers.len() - 1]));
    }
    for (p, s) in crate::templates::SCANNER_TEMPLATES {
        if !ctx.contains(&(*p, *s)) {
            ctx.push((p, s));
        }
    }
    for (i, (p, s)) in ctx.iter().enumerate() {
        v.push(Space::seeded(&format!("cmt{i:02}[{}..{}]", p.escape_debug(), s.escape_debug()), p, s, COMMENT_ATOMS, n));
    }
    v
}

/// A run of 66 hidden-channel tokens (comment, blank, comment, ...) placed directly after the
/// prefix resp. directly before the suffix of every nesting prefix and scanner template: every
/// look-behind ("last token on the default channel") and look-ahead across insignificant
/// tokens has to cross it.
pub fn hidden_run_spaces(n: usize) -> Vec<Space> {
    let run = "/*c*/ ".repeat(33);
    let mut v = Vec::new();
    let mut ctx: Vec<(&str, &str)> = Vec::new();
    for (p, closers) in SEEDS {
        ctx.push((p, closers[closers.len() - 1]));
    }
    for (p, s) in crate::templates::SCANNER_TEMPLATES {
        if !ctx.contains(&(*p, *s)) {
            ctx.push((p, s));
        }
    }
    for (i, (p, s)) in ctx.iter().enumerate() {
        v.push(Space::seeded(&format!("hrun{i:02}a[{}<run>..{}]", p.escape_debug(), s.escape_debug()), &format!("{p}{run}"), s, SEED_ATOMS, n));
        v.push(Space::seeded(&format!("hrun{i:02}b[{}..<run>{}]", p.escape_debug(), s.escape_debug()), p, &format!("{run}{s}"), SEED_ATOMS, n));
    }
    v
}

fn sp(name: &str, atoms: &[&str], n: usize) -> Space {
    Space::new(name, atoms, n)
}

fn sp_owned(name: &str, atoms: &[String], n: usize) -> Space {
    let a: Vec<&str> = atoms.iter().map(String::as_str).collect();
    Space::new(name, &a, n)
}

pub fn seeded_spaces(n: usize) -> Vec<Space> {
    let mut v = Vec::new();
    for (i, (prefix, closers)) in SEEDS.iter().enumerate() {
        for (j, closer) in closers.iter().enumerate() {
            v.push(Space::seeded(
                &format!("seed{i:02}.{j}[{}..{}]", prefix.escape_debug(), closer.escape_debug()),
                prefix,
                closer,
                SEED_ATOMS,
                n,
            ));
        }
    }
    v
}

/// The generic Σ-spaces used by the structural properties.
/// `which` selects by name: "S1".."S9", "seeded".
pub fn sigma_spaces(which: &[&str], tier: Tier) -> Vec<Space> {
    let q = tier == Tier::Quick;
    let mut v = Vec::new();
    for w in which {
        match *w {
            "S1" => v.push(sp("S1", S1, if q { 4 } else { 5 })),
            "S2" => v.push(sp("S2", S2, if q { 4 } else { 5 })),
            "S3" => v.push(sp("S3", S3, if q { 4 } else { 5 })),
            "S4" => v.push(sp("S4", S4, if q { 4 } else { 5 })),
            "S5" => {
                if q {
                    v.push(sp("S5", S5, 3));
                } else {
                    v.push(sp("S5", S5, 4));
                    let mut core = sp("S5core", S5_CORE, 5);
                    core.min_len = 5;
                    v.push(core);
                }
            }
            "S5full" => {
                if q {
                    v.push(sp("S5", S5, 4));
                } else {
                    v.push(sp("S5", S5, 4));
                    let mut core = sp("S5core", S5_CORE, 5);
                    core.min_len = 5;
                    v.push(core);
                }
            }
            "S7" => v.push(sp("S7", S7, if q { 4 } else { 5 })),
            "S8" => v.push(sp("S8", S8, if q { 4 } else { 5 })),
            "S9" => {
                v.push(sp_owned("S9", &s9(), if q { 2 } else { 3 }));
                if !q {
                    let mut core = sp_owned("S9core", &s9_core(), 4);
                    core.min_len = 4;
                    v.push(core);
                }
            }
            "seeded" => {
                v.extend(seeded_spaces(if q { 3 } else { 4 }));
                v.extend(boundary_spaces(if q { 3 } else { 4 }));
                v.extend(expr_spaces(if q { 3 } else { 4 }));
                v.extend(alias_spaces(if q { 3 } else { 4 }));
                v.extend(hidden_run_spaces(if q { 2 } else { 3 }));
                v.extend(comment_spaces(if q { 3 } else { 4 }));
                v.push(sp("comment-body", CMT_BODY, if q { 5 } else { 6 }));
                // every spelling of the in-stream data keywords (coverage measurement showed that
                // only DATALINES and CARDS4 were ever exercised)
                v.push(sp("dlfamily", DL_FAMILY, if q { 4 } else { 5 }));
            }
            "dl" => v.push(sp("dlfamily", DL_FAMILY, if q { 4 } else { 5 })),
            // what a comment scanner sees: openers, closers, their halves, line ends, quotes
            "cmtbody" => v.push(sp("comment-body", CMT_BODY, if q { 6 } else { 7 })),
            "aliasopen" => {
                // the alias / exotic characters among open-code atoms (macro-free: for C11)
                let mut a: Vec<&str> = ALIAS_ATOMS.iter().copied().filter(|x| !x.starts_with('%') && !x.starts_with('&')).collect();
                a.extend(["=", "'", "*", "/", ".", "$", "\n"]);
                v.push(sp("alias-open-code", &a, if q { 3 } else { 4 }));
            }
            other => panic!("unknown space {other}"),
        }
    }
    v
}

/// A smaller variant of the spaces (one level less) for the metamorphic properties that lex
/// each input several times.
pub fn shrink(mut spaces: Vec<Space>, by: usize) -> Vec<Space> {
    for s in &mut spaces {
        s.max_len = s.max_len.saturating_sub(by).max(1);
        if s.min_len > s.max_len {
            s.min_len = s.max_len;
        }
    }
    spaces
}

// ---------------------------------------------------------------------------------------------
// Corpus

/// The SAS snippets of the repository's own inline tests (written by `check` next to the corpus
/// directory): an alphabet of rare constructs, each pinned by a test on its own.
pub fn load_test_strings(corpus_dir: &str) -> Vec<String> {
    let p = std::path::Path::new(corpus_dir).parent().map(|d| d.join("teststrings.json"));
    let Some(p) = p else { return Vec::new() };
    std::fs::read_to_string(p).ok().and_then(|t| serde_json::from_str::<Vec<String>>(&t).ok()).unwrap_or_default()
}

/// test strings in new neighbourhoods: alone, truncated at every character, inside every nesting
/// prefix and scanner template, before and after every atom of the union alphabet, and every
/// ordered pair (glued; thorough: also separated by a line feed and by `;`)
pub fn test_string_inputs(corpus_dir: &str, tier: Tier, pairs: bool) -> Vec<String> {
    let mut ts = load_test_strings(corpus_dir);
    // position-stressing variants of every snippet (the structural oracles hold for any text):
    // wide characters in place of letters, CR LF line ends, a line feed after every ';' and blank
    let base = ts.clone();
    for t in &base {
        for (from, to) in [("a", "\u{e9}"), ("e", "\u{20ac}"), ("t", "\u{1f600}"), (" ", "\u{a0}"), ("\n", "\r\n"), (";", ";\n"), (" ", "\n"), (" ", " /*\u{e9}\n*/ ")] {
            if t.contains(from) {
                ts.push(t.replace(from, to));
            }
        }
    }
    ts.sort();
    ts.dedup();
    let mut v: Vec<String> = ts.clone();
    let ts = base;
    for (p, closers) in SEEDS {
        for t in &ts {
            v.push(format!("{p}{t}{}", closers[closers.len() - 1]));
        }
    }
    for (p, sfx) in crate::templates::SCANNER_TEMPLATES {
        for t in &ts {
            v.push(format!("{p}{t}{sfx}"));
        }
    }
    // every truncation of every snippet, and every snippet before and after every atom of the
    // union alphabet
    let atoms = s9();
    for t in &ts {
        for (i, _) in t.char_indices().skip(1) {
            v.push(t[..i].to_string());
        }
        if pairs {
            for a in &atoms {
                v.push(format!("{t}{a}"));
                v.push(format!("{a}{t}"));
            }
        }
    }
    if pairs {
        for a in &ts {
            for b in &ts {
                v.push(format!("{a}{b}"));
                if tier != Tier::Quick {
                    v.push(format!("{a}\n{b}"));
                    v.push(format!("{a};{b}"));
                }
            }
        }
    }
    v
}

pub struct Corpus {
    pub files: Vec<(String, String)>,
}

/// Real-world sources: the sample programs of the test-suite and the benchmark archive, which
/// the driver unpacks into `dir` (see `check`, step "corpus").
pub fn load_corpus(dir: &str) -> Corpus {
    let mut files = Vec::new();
    if let Ok(rd) = std::fs::read_dir(dir) {
        let mut paths: Vec<_> = rd.filter_map(|e| e.ok().map(|e| e.path())).collect();
        paths.sort();
        for p in paths {
            if let Ok(bytes) = std::fs::read(&p) {
                if let Ok(s) = String::from_utf8(bytes) {
                    files.push((p.file_name().unwrap().to_string_lossy().to_string(), s));
                }
            }
        }
    }
    Corpus { files }
}

//! Canonical dump of a lexer result: everything a caller can observe, serialised to bytes in a
//! fixed order, so that results can be compared across inputs (C15, C16, C17), across builds
//! (C18, C19) and across threads/histories (C19).

use sas_lexer::error::ErrorInfo;
use sas_lexer::{LexResult, Payload, TokenChannel as Ch, TokenType as T};

#[derive(Clone, Debug, PartialEq)]
pub struct CTok {
    pub ty: T,
    pub ch: Ch,
    pub start: u32,
    pub cstart: u32,
    pub cstop: u32,
    pub line: u32,
    pub col: u32,
    pub end_line: u32,
    pub end_col: u32,
    pub payload: CPayload,
}

#[derive(Clone, Debug, PartialEq)]
pub enum CPayload {
    None,
    Int(u64),
    /// bit pattern, so that NaN and -0.0 compare exactly
    Float(u64),
    Str(u32, u32),
}

#[derive(Clone, Debug, PartialEq)]
pub struct CErr {
    pub kind: u16,
    pub byte: u32,
    pub chr: u32,
    pub line: u32,
    pub col: u32,
    pub last_token: Option<u32>,
}

#[derive(Clone, Debug, PartialEq)]
pub struct Canon {
    pub toks: Vec<CTok>,
    pub errs: Vec<CErr>,
    pub lits: String,
    pub line_count: u32,
}

pub fn cpayload(p: Payload) -> CPayload {
    match p {
        Payload::None => CPayload::None,
        Payload::Integer(i) => CPayload::Int(i),
        Payload::Float(f) => CPayload::Float(f.to_bits()),
        Payload::StringLiteral(a, b) => CPayload::Str(a, b),
    }
}

pub fn cerr(e: &ErrorInfo) -> CErr {
    CErr {
        kind: e.error_kind() as u16,
        byte: e.at_byte_offset(),
        chr: e.at_char_offset(),
        line: e.on_line(),
        col: e.at_column(),
        last_token: e.last_token().map(|t| t.get()),
    }
}

/// Build the canonical dump. Uses the bulk view for positions (C05 ties it to the accessors).
/// May panic if the buffer is internally inconsistent; callers wrap it in `catch_unwind`.
pub fn canon(r: &LexResult) -> Canon {
    let rv = r.buffer.into_resolved_token_vec();
    let infos: Vec<_> = r.buffer.iter_tokens_infos().collect();
    let mut toks = Vec::with_capacity(rv.len());
    for (i, t) in rv.iter().enumerate() {
        toks.push(CTok {
            ty: t.token_type,
            ch: t.channel,
            start: infos.get(i).map_or(u32::MAX, |x| x.1.byte_offset().get()),
            cstart: t.start,
            cstop: t.stop,
            line: t.line,
            col: t.column,
            end_line: t.end_line,
            end_col: t.end_column,
            payload: cpayload(t.payload),
        });
    }
    Canon {
        toks,
        errs: r.errors.iter().map(cerr).collect(),
        lits: r.buffer.string_literals_buffer().to_string(),
        line_count: r.buffer.line_count(),
    }
}

impl Canon {
    /// Remove `MacroSep` tokens and renumber the token indices the errors refer to (C18).
    pub fn strip_macro_sep(&self) -> Canon {
        let mut map: Vec<u32> = Vec::with_capacity(self.toks.len());
        let mut toks = Vec::with_capacity(self.toks.len());
        for t in &self.toks {
            // index of the last kept token at or before this one
            if t.ty == T::MacroSep {
                map.push((toks.len() as u32).saturating_sub(1));
            } else {
                toks.push(t.clone());
                map.push(toks.len() as u32 - 1);
            }
        }
        let errs = self
            .errs
            .iter()
            .map(|e| CErr {
                last_token: e
                    .last_token
                    .map(|t| map.get(t as usize).copied().unwrap_or(u32::MAX)),
                ..e.clone()
            })
            .collect();
        Canon {
            toks,
            errs,
            lits: self.lits.clone(),
            line_count: self.line_count,
        }
    }

    pub fn to_bytes(&self, out: &mut Vec<u8>) {
        out.clear();
        out.extend_from_slice(&(self.toks.len() as u32).to_le_bytes());
        for t in &self.toks {
            out.extend_from_slice(&(t.ty as u16).to_le_bytes());
            out.push(t.ch as u8);
            for x in [t.start, t.cstart, t.cstop, t.line, t.col, t.end_line, t.end_col] {
                out.extend_from_slice(&x.to_le_bytes());
            }
            match &t.payload {
                CPayload::None => out.push(0),
                CPayload::Int(i) => {
                    out.push(1);
                    out.extend_from_slice(&i.to_le_bytes());
                }
                CPayload::Float(f) => {
                    out.push(2);
                    out.extend_from_slice(&f.to_le_bytes());
                }
                CPayload::Str(a, b) => {
                    out.push(3);
                    out.extend_from_slice(&a.to_le_bytes());
                    out.extend_from_slice(&b.to_le_bytes());
                }
            }
        }
        out.extend_from_slice(&(self.errs.len() as u32).to_le_bytes());
        for e in &self.errs {
            out.extend_from_slice(&e.kind.to_le_bytes());
            for x in [e.byte, e.chr, e.line, e.col, e.last_token.map_or(u32::MAX, |t| t)] {
                out.extend_from_slice(&x.to_le_bytes());
            }
        }
        out.extend_from_slice(&self.line_count.to_le_bytes());
        out.extend_from_slice(&(self.lits.len() as u32).to_le_bytes());
        out.extend_from_slice(self.lits.as_bytes());
    }

    pub fn digest(&self, scratch: &mut Vec<u8>) -> u64 {
        self.to_bytes(scratch);
        fnv1a(scratch)
    }

    /// First difference between two dumps, human readable (None = equal)
    pub fn diff(&self, other: &Canon) -> Option<String> {
        if self.toks.len() != other.toks.len() {
            let i = self
                .toks
                .iter()
                .zip(&other.toks)
                .position(|(a, b)| (a.ty, a.ch, a.start) != (b.ty, b.ch, b.start))
                .unwrap_or(self.toks.len().min(other.toks.len()));
            return Some(format!(
                "token-count:{:?}/{:?}",
                self.toks.get(i).map(|t| t.ty),
                other.toks.get(i).map(|t| t.ty)
            ));
        }
        for (a, b) in self.toks.iter().zip(&other.toks) {
            if a.ty != b.ty {
                return Some(format!("token-type:{:?}/{:?}", a.ty, b.ty));
            }
            if a.ch != b.ch {
                return Some(format!("token-channel:{:?}", a.ty));
            }
            if a.start != b.start || a.cstart != b.cstart || a.cstop != b.cstop {
                return Some(format!("token-offset:{:?}", a.ty));
            }
            if (a.line, a.col, a.end_line, a.end_col) != (b.line, b.col, b.end_line, b.end_col) {
                return Some(format!("token-line-col:{:?}", a.ty));
            }
            if a.payload != b.payload {
                return Some(format!("token-payload:{:?}", a.ty));
            }
        }
        if self.errs.len() != other.errs.len() {
            return Some("error-count".to_string());
        }
        for (a, b) in self.errs.iter().zip(&other.errs) {
            if a != b {
                return Some(if a.kind != b.kind {
                    "error-kind".to_string()
                } else if a.last_token != b.last_token {
                    "error-last-token".to_string()
                } else {
                    "error-position".to_string()
                });
            }
        }
        if self.lits != other.lits {
            return Some("literal-buffer".to_string());
        }
        if self.line_count != other.line_count {
            return Some("line-count".to_string());
        }
        None
    }
}

pub fn fnv1a(bytes: &[u8]) -> u64 {
    let mut h: u64 = 0xcbf2_9ce4_8422_2325;
    for b in bytes {
        h ^= u64::from(*b);
        h = h.wrapping_mul(0x0000_0100_0000_01b3);
    }
    h
}

//! Template x filler product spaces (DESIGN 5: T3, T4, T7): one template per scanner of the
//! lexer, the hole filled with every word over a small filler alphabet.

use crate::explore::Space;
use crate::spaces::Tier;

/// (prefix, suffix) - one per scanner that consumes arbitrary text
pub const SCANNER_TEMPLATES: &[(&str, &str)] = &[
    ("", ""),
    ("x", " y;"),
    ("'", "'"),
    ("'", "'n"),
    ("\"", "\""),
    ("\"&v", "\""),
    ("\"", "&v.\""),
    ("\"%m()", "\""),
    ("/*", "*/"),
    ("/*", ""),
    ("*", ";"),
    ("a=1; *", ";"),
    ("%*", ";"),
    ("%let a=", ";"),
    ("%let ", "=1;"),
    ("%put ", ";"),
    ("%m(", ")"),
    ("%m(a=", ")"),
    ("%m(a", "=1)"),
    ("%m", "(1)"),
    ("%m", ";"),
    ("%str(", ")"),
    ("%nrstr(", ")"),
    ("%eval(", ")"),
    ("%eval(1", "+2)"),
    ("%sysfunc(f(", "))"),
    ("%sysfunc(", "(1))"),
    ("%scan(", ",1)"),
    ("%upcase(", ")"),
    ("datalines;\n", "\n;"),
    ("datalines", ";\n1\n;"),
    ("cards4;\n", "\n;;;;"),
    ("$", "8."),
    ("%macro m(", "); %mend;"),
    ("%macro m; *", "; %mend;"),
    ("%macro m; *", "%x; %mend;"),
    ("%macro ", "; %mend;"),
    ("%goto ", ";"),
    ("%local ", ";"),
    ("%if ", " %then %put a;"),
    ("%do i=1 %to ", "; %end;"),
    ("%lbl", ": %put a;"),
    // a label that needs a separator in the macro_sep build (it follows a token that is not ';'):
    // whatever stands between the name and the ':' lies between the inserted token and its owner
    ("x %lbl", ": %put a;"),
    ("%m(x)\n%lbl", ":\n%put a;"),
    ("%copy a /", ";"),
    ("x=1", "e5;"),
];

fn product(name: &str, fillers: &[&str], n: usize) -> Vec<Space> {
    SCANNER_TEMPLATES
        .iter()
        .enumerate()
        .map(|(i, (p, s))| {
            Space::seeded(
                &format!("{name}{i:02}[{}..{}]", p.escape_debug(), s.escape_debug()),
                p,
                s,
                fillers,
                n,
            )
        })
        .collect()
}

pub fn t3_spaces(tier: Tier) -> Vec<Space> {
    product("T3.", &["a", "é", "€", "😀", "\n", " ", "\u{a0}", "="], if tier == Tier::Quick { 4 } else { 5 })
}

pub fn t4_spaces(tier: Tier) -> Vec<Space> {
    product("T4.", &["a", "\n", " ", ";", "("], if tier == Tier::Quick { 4 } else { 6 })
}

pub const T7_TEMPLATES: &[(&str, &str)] = &[
    ("'", "'"),
    ("'", "'d"),
    ("'", "'x"),
    ("'", "'X;"),
    ("\"", "\""),
    ("\"", "\"n"),
    ("\"", "\"x"),
    ("\"", "\"X"),
    ("\"&v", "\""),
    ("\"", "&v\""),
    ("\"%m()", "\""),
    ("\"&v.", "\"dt"),
    ("%str(", ")"),
    ("%nrstr(", ")"),
    ("%let a=%str(", ");"),
    ("%let a=%nrstr(", ");"),
    ("%m(%str(", "))"),
    ("%m(\"", ""),
    ("%macro m; %let a='", "'; %mend;"),
    ("%str(a", ""),
    ("'", ""),
    ("\"", ""),
    ("\"&v ", ""),
    ("%put %str(", ") '", ),
    ("%eval(%str(", ")=1)"),
    // every literal suffix for both quote kinds (one- and two-letter, both cases), and after a
    // string expression
    ("'", "'b"),
    ("'", "'dt"),
    ("'", "'n"),
    ("'", "'t"),
    ("'", "'DT;"),
    ("'", "'T"),
    ("'", "'N"),
    ("'", "'D"),
    ("'", "'B"),
    ("\"", "\"b"),
    ("\"", "\"d"),
    ("\"", "\"dt"),
    ("\"", "\"t"),
    ("\"", "\"DT"),
    ("\"", "\"N;"),
    ("\"&v.", "\"x"),
    ("\"&v.", "\"n"),
    ("\"&v.", "\"d"),
    ("\"&v.", "\"t"),
    ("\"&v.", "\"b"),
    ("x='", "'dt + 1;"),
    // something directly after the suffix of a string *expression* (the closing quote and suffix
    // are one token there; what follows must not become part of it)
    ("\"&v.", "\"dt)"),
    ("\"&v.", "\"DT,x"),
    ("\"&v.", "\"d;"),
    ("\"&v.", "\"x)"),
    ("\"&v.", "\"n=1"),
    ("\"&v.", "\"t "),
    ("\"&v.", "\"b\n"),
    ("%m(a=\"&v.", "\"dt)"),
    ("%let a=%sysfunc(f(\"&v", "\"dt));"),
];

pub const T7_FILLERS: &[&str] = &[
    "a", "''", "\"\"", "%'", "%\"", "%%", "%(", "%)", "%", "/", "&", "&&", "\n", "é", " ", "41",
    ",", "+", "(", ")", "C3", "A9", "e9",
];

pub fn t7_spaces(tier: Tier) -> Vec<Space> {
    let n = if tier == Tier::Quick { 3 } else { 4 };
    T7_TEMPLATES
        .iter()
        .enumerate()
        .map(|(i, (p, s))| {
            Space::seeded(
                &format!("T7.{i:02}[{}..{}]", p.escape_debug(), s.escape_debug()),
                p,
                s,
                T7_FILLERS,
                n,
            )
        })
        .collect()
}

//! C19 part 3: exhaustive exploration of thread interleavings of several lexers at main-loop
//! iteration granularity, on real OS threads under a controlled scheduler.
//!
//! Hook H4 calls a thread-local `fn()` once per iteration of `Lexer::lex`. Worker threads install
//! a hook that parks the thread until the controller grants it one step. The controller waits
//! until every worker is parked (or finished), picks the next worker according to the schedule
//! being explored, and releases exactly that one. Schedules are enumerated depth-first: replay a
//! prefix of choices, then take choice 0; afterwards branch on every alternative at every later
//! point (optionally bounded by the number of preemptions). Real threads are used (rather than
//! shuttle's coroutines, which share one OS thread and therefore `std::thread_local!` storage)
//! so that thread-local state in the lexer behaves exactly as it would in production.

use crate::digest::input_digest;
use std::cell::Cell;
use std::sync::atomic::{AtomicBool, AtomicU32, AtomicU64, Ordering};
use std::sync::{Arc, Mutex};

const IDLE: u32 = 0; // waiting for a job
const RUNNING: u32 = 1;
const AT_POINT: u32 = 2; // parked in the iteration hook
const DONE: u32 = 3; // job finished, result published

pub struct Worker {
    state: AtomicU32,
    grant: AtomicBool,
    job: Mutex<Option<String>>,
    result: AtomicU64,
    quit: AtomicBool,
}

thread_local! {
    static ME: Cell<Option<&'static Worker>> = const { Cell::new(None) };
}

fn hook() {
    if let Some(w) = ME.with(Cell::get) {
        w.state.store(AT_POINT, Ordering::SeqCst);
        let mut spins = 0u32;
        while !w.grant.swap(false, Ordering::SeqCst) {
            spins += 1;
            if spins > 200 {
                std::thread::yield_now();
            } else {
                std::hint::spin_loop();
            }
        }
    }
}

fn worker_main(w: &'static Worker, strip: bool) {
    ME.with(|m| m.set(Some(w)));
    sas_lexer::verif::set_iter_hook(Some(hook));
    let mut scratch = Vec::new();
    loop {
        // wait for a job
        let job = loop {
            if w.quit.load(Ordering::SeqCst) {
                return;
            }
            if let Some(j) = w.job.lock().unwrap().take() {
                break j;
            }
            std::thread::yield_now();
        };
        // first point: before doing anything
        hook();
        let d = input_digest(&job, strip, &mut scratch);
        w.result.store(d, Ordering::SeqCst);
        w.state.store(DONE, Ordering::SeqCst);
    }
}

pub struct Pool {
    workers: Vec<&'static Worker>,
    handles: Vec<std::thread::JoinHandle<()>>,
}

impl Pool {
    pub fn new(n: usize, strip: bool) -> Pool {
        let mut workers = Vec::new();
        let mut handles = Vec::new();
        for _ in 0..n {
            let w: &'static Worker = Box::leak(Box::new(Worker {
                state: AtomicU32::new(IDLE),
                grant: AtomicBool::new(false),
                job: Mutex::new(None),
                result: AtomicU64::new(0),
                quit: AtomicBool::new(false),
            }));
            workers.push(w);
            handles.push(std::thread::spawn(move || worker_main(w, strip)));
        }
        Pool { workers, handles }
    }

    pub fn shutdown(self) {
        for w in &self.workers {
            w.quit.store(true, Ordering::SeqCst);
        }
        for h in self.handles {
            let _ = h.join();
        }
    }

    /// Run one execution: replay `prefix`, then always choose the first enabled worker in
    /// canonical order (the one that ran last if still enabled, then ascending ids).
    /// Returns (choices made, for each point the number of enabled workers and whether the
    /// previously running worker was still enabled, results).
    fn run(&self, inputs: &[&str], prefix: &[u8]) -> Execution {
        let k = inputs.len();
        for (w, inp) in self.workers.iter().zip(inputs) {
            w.state.store(RUNNING, Ordering::SeqCst);
            *w.job.lock().unwrap() = Some((*inp).to_string());
        }
        let mut choices: Vec<u8> = Vec::new();
        let mut points: Vec<Point> = Vec::new();
        let mut last: Option<usize> = None;
        let mut diverged = false;
        loop {
            // wait until every worker is parked or done
            let mut spins = 0u32;
            loop {
                if self.workers[..k].iter().all(|w| {
                    let s = w.state.load(Ordering::SeqCst);
                    s == AT_POINT || s == DONE
                }) {
                    break;
                }
                spins += 1;
                if spins > 200 {
                    std::thread::yield_now();
                } else {
                    std::hint::spin_loop();
                }
            }
            // canonical order of enabled workers
            let mut enabled: Vec<usize> = Vec::new();
            let mut last_enabled = false;
            if let Some(l) = last {
                if self.workers[l].state.load(Ordering::SeqCst) == AT_POINT {
                    enabled.push(l);
                    last_enabled = true;
                }
            }
            for i in 0..k {
                if Some(i) != last && self.workers[i].state.load(Ordering::SeqCst) == AT_POINT {
                    enabled.push(i);
                }
            }
            if enabled.is_empty() {
                break;
            }
            let pos = choices.len();
            let mut c = if pos < prefix.len() { prefix[pos] } else { 0 };
            if (c as usize) >= enabled.len() {
                // The same inputs under the same schedule prefix offered fewer choices than
                // before: some lexer took a different number of iterations than in the run this
                // prefix was derived from. The harness is deterministic (every decision is taken
                // with all workers parked), so the lexers are not a function of their source.
                diverged = true;
                c = 0;
            }
            let pick = enabled[c as usize];
            choices.push(c);
            points.push(Point { enabled: enabled.len() as u8, last_enabled });
            last = Some(pick);
            let w = self.workers[pick];
            w.state.store(RUNNING, Ordering::SeqCst);
            w.grant.store(true, Ordering::SeqCst);
        }
        let results = self.workers[..k].iter().map(|w| w.result.load(Ordering::SeqCst)).collect();
        for w in &self.workers[..k] {
            w.state.store(IDLE, Ordering::SeqCst);
        }
        Execution { choices, points, results, diverged }
    }
}

#[derive(Clone, Copy)]
struct Point {
    enabled: u8,
    last_enabled: bool,
}

struct Execution {
    choices: Vec<u8>,
    points: Vec<Point>,
    results: Vec<u64>,
    /// a replayed prefix did not fit the execution (see `run`)
    diverged: bool,
}

pub struct SchedStats {
    pub divergences: u64,
    /// nodes / edges of the explored schedule trees (distinct schedule prefixes)
    pub tree_nodes: u64,
    pub tree_edges: u64,
    pub schedules: u64,
    pub points: u64,
    pub max_points: usize,
    pub bad: Vec<(Vec<String>, Vec<u8>)>,
    pub complete: bool,
}

/// Explore every schedule of the given inputs (one per worker) with at most `bound` preemptions
/// (`None` = unbounded). `expected[i]` is the digest of inputs[i] lexed alone.
pub fn explore(pool: &Pool, inputs: &[&str], expected: &[u64], bound: Option<u32>, cap: u64, stats: &mut SchedStats) {
    let mut stack: Vec<Vec<u8>> = vec![vec![]];
    stats.tree_nodes += 1;
    while let Some(prefix) = stack.pop() {
        if stats.schedules >= cap {
            stats.complete = false;
            return;
        }
        let x = pool.run(inputs, &prefix);
        stats.schedules += 1;
        stats.points += x.points.len() as u64;
        let new_edges = (x.points.len() - prefix.len().saturating_sub(1)) as u64;
        stats.tree_edges += new_edges;
        stats.tree_nodes += new_edges;
        stats.max_points = stats.max_points.max(x.points.len());
        if (x.results != expected || x.diverged) && stats.bad.len() < 3 {
            stats.bad.push((inputs.iter().map(|s| (*s).to_string()).collect(), x.choices.clone()));
        }
        if x.diverged {
            stats.divergences += 1;
            continue; // the tree below this prefix is not well defined
        }
        // branch on every alternative at every point after the prefix
        let mut preempts = 0u32;
        for i in 0..x.points.len() {
            let pt = x.points[i];
            if i >= prefix.len() {
                for alt in 1..pt.enabled {
                    // choosing a worker other than the still-enabled last one is a preemption
                    let cost = preempts + u32::from(pt.last_enabled);
                    if bound.is_some_and(|b| cost > b) {
                        continue;
                    }
                    let mut p = x.choices[..i].to_vec();
                    p.push(alt);
                    stack.push(p);
                }
            }
            if pt.last_enabled && x.choices[i] != 0 {
                preempts += 1;
            }
        }
    }
}

/// replay one schedule twice and check that the observations are identical (the harness owns
/// all nondeterminism)
pub fn replay_twice(pool: &Pool, inputs: &[&str], schedule: &[u8]) -> bool {
    let a = pool.run(inputs, schedule);
    let b = pool.run(inputs, schedule);
    a.choices == b.choices && a.results == b.results
}

pub fn main(args: &[String]) {
    let get = |k: &str| args.iter().position(|a| a == k).and_then(|i| args.get(i + 1).cloned());
    let thorough = get("--tier").as_deref() == Some("thorough");
    let strip = false;
    // inputs with few main-loop iterations, exercising different paths
    let cands: Vec<&str> = vec![
        "a b", "%m(1)", "'a''b'", "%let a=1;", "x=1;", "\"&v\"", "%m a", "*c;", "0fx ", "%if 1 %then", "%str(%%)",
        "d;datalines;\n1\n;", "a", "%eval(1)", "&&a&b", "/*c*/",
    ];
    let mut scratch = Vec::new();
    let expected_all: Vec<u64> = cands.iter().map(|c| input_digest(c, strip, &mut scratch)).collect();
    let iters: Vec<u64> = cands
        .iter()
        .map(|c| match crate::view::run_lexer(c) {
            crate::view::Outcome::Ok(r) => r.verif.iterations,
            _ => 0,
        })
        .collect();
    let pool = Pool::new(3, strip);
    let mut stats = SchedStats { divergences: 0, tree_nodes: 0, tree_edges: 0, schedules: 0, points: 0, max_points: 0, bad: vec![], complete: true };
    let t0 = std::time::Instant::now();
    let cap: u64 = get("--cap").and_then(|s| s.parse().ok()).unwrap_or(if thorough { 30_000_000 } else { 600_000 });
    // determinism of the harness itself
    let det = replay_twice(&pool, &[cands[1], cands[3]], &[1, 0, 1, 1, 0]);
    // (a) two threads, every schedule (no bound), for all ordered pairs of the short inputs
    let short_limit = if thorough { 8 } else { 6 };
    let short: Vec<usize> = (0..cands.len()).filter(|i| iters[*i] <= short_limit).collect();
    let mut pairs = 0u64;
    for &i in &short {
        for &j in &short {
            explore(&pool, &[cands[i], cands[j]], &[expected_all[i], expected_all[j]], None, cap, &mut stats);
            pairs += 1;
        }
    }
    let unbounded_schedules = stats.schedules;
    // (b) two threads, preemption bound, all ordered pairs of all inputs
    let pb2 = if thorough { 4 } else { 3 };
    let mut pairs_b = 0u64;
    for i in 0..cands.len() {
        for j in 0..cands.len() {
            explore(&pool, &[cands[i], cands[j]], &[expected_all[i], expected_all[j]], Some(pb2), cap, &mut stats);
            pairs_b += 1;
        }
    }
    let two_thread_schedules = stats.schedules;
    // (c) three threads, preemption bounded
    let mut triples = 0u64;
    let tn = if thorough { 8 } else { 5 };
    let pb3 = if thorough { 3 } else { 2 };
    for &i in short.iter().take(tn) {
        for &j in short.iter().take(tn) {
            for &l in short.iter().take(tn) {
                explore(
                    &pool,
                    &[cands[i], cands[j], cands[l]],
                    &[expected_all[i], expected_all[j], expected_all[l]],
                    Some(pb3),
                    cap,
                    &mut stats,
                );
                triples += 1;
            }
        }
    }
    pool.shutdown();
    let doc = serde_json::json!({
        "inputs": cands,
        "iterations_per_input": iters,
        "two_threads_unbounded": {"ordered_pairs": pairs, "schedules": unbounded_schedules, "max_iterations_per_input": short_limit},
        "two_threads_bounded": {"ordered_pairs": pairs_b, "schedules": two_thread_schedules - unbounded_schedules, "preemption_bound": pb2},
        "three_threads_bounded": {"ordered_triples": triples, "schedules": stats.schedules - two_thread_schedules, "preemption_bound": pb3},
        "schedules": stats.schedules,
        "schedule_tree_nodes": stats.tree_nodes,
        "schedule_tree_edges": stats.tree_edges,
        "scheduling_points": stats.points,
        "max_points_in_one_execution": stats.max_points,
        "complete": stats.complete,
        "replay_divergences": stats.divergences,
        "cap": cap,
        "replay_deterministic": det,
        "mismatches": stats.bad.iter().map(|(i, s)| serde_json::json!({"inputs": i, "schedule": s})).collect::<Vec<_>>(),
        "wall_s": t0.elapsed().as_secs_f64(),
    });
    println!("{}", serde_json::to_string(&doc).unwrap());
    let _ = Arc::new(0);
}

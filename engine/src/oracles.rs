//! Oracles of the structural properties C02-C07, C09, C10 (DESIGN 4.1-4.3, 5).
//! Each oracle appends the signatures of failed clauses to `out`; an empty list = holds.

use crate::spaces::{keywords, macro_keywords};
use crate::view::{panic_message, PosIndex, View};
use sas_lexer::error::ErrorKind as E;
use sas_lexer::{Payload, TokenChannel as Ch, TokenType as T};
use std::collections::HashMap;
use std::panic::{self, AssertUnwindSafe};
use std::sync::OnceLock;
use unicode_ident::{is_xid_continue, is_xid_start};

pub fn name_start(c: char) -> bool {
    is_xid_start(c) || c == '_'
}

pub fn is_name(s: &str) -> bool {
    let mut it = s.chars();
    match it.next() {
        Some(c) if name_start(c) => it.all(is_xid_continue),
        _ => false,
    }
}

pub struct Tables {
    /// upper-case keyword -> type (open code)
    pub kw: HashMap<String, T>,
    /// upper-case macro keyword (without %) -> type
    pub mkw: HashMap<String, T>,
}

pub fn tables() -> &'static Tables {
    static TABLES: OnceLock<Tables> = OnceLock::new();
    TABLES.get_or_init(|| Tables {
        kw: keywords().into_iter().collect(),
        mkw: macro_keywords().into_iter().collect(),
    })
}

pub fn is_comment_type(t: T) -> bool {
    matches!(t, T::CStyleComment | T::PredictedCommentStat | T::MacroComment)
}

pub fn is_expr_end(t: T) -> bool {
    matches!(
        t,
        T::StringExprEnd
            | T::BitTestingLiteralExprEnd
            | T::DateLiteralExprEnd
            | T::DateTimeLiteralExprEnd
            | T::NameLiteralExprEnd
            | T::TimeLiteralExprEnd
            | T::HexStringLiteralExprEnd
    )
}

pub fn is_quoted_literal(t: T) -> bool {
    matches!(
        t,
        T::StringLiteral
            | T::BitTestingLiteral
            | T::DateLiteral
            | T::DateTimeLiteral
            | T::NameLiteral
            | T::TimeLiteral
            | T::HexStringLiteral
    )
}

fn literal_suffix(t: T) -> &'static str {
    match t {
        T::BitTestingLiteral | T::BitTestingLiteralExprEnd => "B",
        T::DateLiteral | T::DateLiteralExprEnd => "D",
        T::DateTimeLiteral | T::DateTimeLiteralExprEnd => "DT",
        T::NameLiteral | T::NameLiteralExprEnd => "N",
        T::TimeLiteral | T::TimeLiteralExprEnd => "T",
        T::HexStringLiteral | T::HexStringLiteralExprEnd => "X",
        _ => "",
    }
}

/// Built-in macro function keywords that take a parenthesised argument list
pub fn is_arg_taking_builtin(t: T) -> bool {
    let v = t as u16;
    v >= T::KwmCmpres as u16 && v <= T::KwmNrStr as u16 && t != T::KwmSysmexecdepth
}

// ---------------------------------------------------------------------------------------------
// C02: tiling, single EOF, accessor totality

pub fn c02(v: &View, out: &mut Vec<String>) {
    let n = v.toks.len();
    if n == 0 {
        out.push("tiling.no-tokens".into());
        return;
    }
    let len = v.src.len() as u32;
    let mut pos = v.b0;
    for (i, t) in v.toks.iter().enumerate() {
        if t.start > len || !v.src.is_char_boundary(t.start as usize) {
            out.push(format!("tiling.boundary:{:?}", t.ty));
            return;
        }
        if i == 0 && t.start != v.b0 {
            out.push(format!("tiling.first-start:{:?}", t.ty));
        }
        if t.start < pos && i > 0 && t.start < v.toks[i - 1].start {
            out.push(format!("tiling.start-decreases:{:?}", t.ty));
            return;
        }
        pos = t.start;
    }
    let eofs = v.toks.iter().filter(|t| t.ty == T::EOF).count();
    let last = v.toks[n - 1];
    if last.ty != T::EOF {
        out.push(format!("eof.not-last:{:?}", last.ty));
    }
    if eofs != 1 {
        out.push(format!("eof.count:{eofs}"));
    }
    if last.start != len {
        out.push("eof.not-at-end".into());
    }
    // the same in character coordinates (what Python and editors index by): character starts
    // never decrease and the EOF token sits at the number of characters of the text
    let nchars = v.src.chars().count() as u32;
    if last.cstart != nchars {
        out.push("eof.char-offset-not-at-end".into());
    }
    if v.toks.windows(2).any(|w| w[1].cstart < w[0].cstart) || v.toks.iter().any(|t| t.cstart > nchars) {
        out.push("tiling.char-start-decreases-or-beyond-end".into());
    }
    // concatenation of raw texts == source after the BOM
    let mut cat = String::with_capacity(v.src.len());
    for i in 0..n {
        match v.text(i) {
            Some(t) => cat.push_str(t),
            None => {
                out.push(format!("tiling.bad-range:{:?}", v.toks[i].ty));
                return;
            }
        }
    }
    if cat != v.src[v.b0 as usize..] {
        out.push("tiling.concat".into());
    }

    // accessor totality for every index the buffer hands out
    let b = &v.res.buffer;
    let handed: Vec<_> = b.iter_tokens().collect();
    if handed.len() != n || b.token_count() as usize != n {
        out.push("accessor.count".into());
    }
    let src = v.src;
    let r = panic::catch_unwind(AssertUnwindSafe(|| {
        let mut bad: Option<String> = None;
        for (i, idx) in handed.iter().enumerate() {
            let ok = b.get_token_start_byte_offset(*idx).is_ok()
                && b.get_token_end_byte_offset(*idx).is_ok()
                && b.get_token_start(*idx).is_ok()
                && b.get_token_end(*idx).is_ok()
                && b.get_token_start_line(*idx).is_ok()
                && b.get_token_end_line(*idx).is_ok()
                && b.get_token_start_column(*idx).is_ok()
                && b.get_token_end_column(*idx).is_ok()
                && b.get_token_type(*idx).is_ok()
                && b.get_token_channel(*idx).is_ok()
                && b.get_token_payload(*idx).is_ok()
                && b.get_token_raw_text(*idx, &src).is_ok()
                && b.get_token_resolved_text(*idx, &src).is_ok();
            if !ok {
                bad = Some(format!("accessor.err:{:?}", b.get_token_type(*idx).ok()));
                break;
            }
            if i < n {
                let t = &v.toks[i];
                let raw = b.get_token_raw_text(*idx, &src).ok().flatten();
                let expect = if t.end > t.start { v.text(i) } else { None };
                if raw != expect {
                    bad = Some(format!("accessor.raw-text:{:?}", t.ty));
                    break;
                }
                if b.get_token_end_byte_offset(*idx).map(|o| o.get()).ok() != Some(t.end) {
                    bad = Some(format!("accessor.end-offset:{:?}", t.ty));
                    break;
                }
                if let Payload::StringLiteral(a, e) = t.payload {
                    if b.get_string_literal(a, e).is_err() {
                        bad = Some(format!("accessor.string-literal:{:?}", t.ty));
                        break;
                    }
                }
            }
        }
        bad
    }));
    match r {
        Ok(None) => {}
        Ok(Some(s)) => out.push(s),
        Err(e) => out.push(format!("accessor.panic:{}", panic_message(&*e))),
    }
}

// ---------------------------------------------------------------------------------------------
// C03: char offsets; C04: lines and columns (accessors vs the position model)

pub fn c03(v: &View, px: &PosIndex, out: &mut Vec<String>) {
    let b = &v.res.buffer;
    let len = v.src.len();
    for (i, t) in v.toks.iter().enumerate() {
        if t.start as usize > len || !v.src.is_char_boundary(t.start as usize) {
            continue; // C02's business
        }
        if t.cstart != px.cp(t.start as usize) {
            out.push(format!("charoff.token-start:{:?}", t.ty));
            break;
        }
        let cend = b.get_token_end(v.idx[i]).map(|c| c.get()).ok();
        if (t.end as usize) <= len
            && v.src.is_char_boundary(t.end as usize)
            && cend != Some(px.cp(t.end as usize))
        {
            out.push(format!("charoff.token-end:{:?}", t.ty));
            break;
        }
        // code point slicing equals byte slicing
        // (quadratic, so only for short sources; the two comparisons above already pin both ends)
        if let (true, Some(ce), Some(txt)) = (v.src.len() < 4096, cend, v.text(i)) {
            if ce >= t.cstart {
                let by_cp: String = v
                    .src
                    .chars()
                    .skip(t.cstart as usize)
                    .take((ce - t.cstart) as usize)
                    .collect();
                if by_cp != txt {
                    out.push(format!("charoff.slice:{:?}", t.ty));
                    break;
                }
            }
        }
    }
    for e in v.errors {
        let o = e.at_byte_offset() as usize;
        if o <= len && v.src.is_char_boundary(o) && e.at_char_offset() != px.cp(o) {
            out.push(format!("charoff.error:{:?}", e.error_kind()));
        }
    }
}

pub fn c04(v: &View, px: &PosIndex, out: &mut Vec<String>) {
    let b = &v.res.buffer;
    let len = v.src.len();
    if b.line_count() != px.line_count() {
        out.push("lines.count".into());
    }
    let r = panic::catch_unwind(AssertUnwindSafe(|| {
        for (i, t) in v.toks.iter().enumerate() {
            if t.start as usize > len || t.end as usize > len || t.end < t.start {
                continue;
            }
            let idx = v.idx[i];
            let (l, c) = px.line_col(t.start as usize);
            if b.get_token_start_line(idx).ok() != Some(l) {
                return Some(format!("lines.start-line:{:?}", t.ty));
            }
            if b.get_token_start_column(idx).ok() != Some(c) {
                return Some(format!("lines.start-column:{:?}", t.ty));
            }
            let (el, ec) = px.end_line_col(t.start as usize, t.end as usize);
            if b.get_token_end_line(idx).ok() != Some(el) {
                return Some(format!(
                    "lines.end-line:{:?}{}",
                    t.ty,
                    if t.end == t.start { ":empty" } else { "" }
                ));
            }
            if b.get_token_end_column(idx).ok() != Some(ec) {
                return Some(format!(
                    "lines.end-column:{:?}{}",
                    t.ty,
                    if t.end == t.start { ":empty" } else { "" }
                ));
            }
        }
        None
    }));
    match r {
        Ok(None) => {}
        Ok(Some(s)) => out.push(s),
        Err(e) => out.push(format!("lines.accessor-panic:{}", panic_message(&*e))),
    }
    for e in v.errors {
        let o = e.at_byte_offset() as usize;
        if o <= len && v.src.is_char_boundary(o) {
            let (l, c) = px.line_col(o);
            if e.on_line() != l {
                out.push(format!("lines.error-line:{:?}", e.error_kind()));
            } else if e.at_column() != c {
                out.push(format!("lines.error-column:{:?}", e.error_kind()));
            }
        }
    }
}

// ---------------------------------------------------------------------------------------------
// C05: bulk view == accessors

pub fn c05(v: &View, out: &mut Vec<String>) {
    let b = &v.res.buffer;
    let r = panic::catch_unwind(AssertUnwindSafe(|| {
        let rv = b.into_resolved_token_vec();
        if rv.len() != v.toks.len() {
            return Some("bulk.len".to_string());
        }
        for (i, r) in rv.iter().enumerate() {
            let idx = v.idx[i];
            let ty = b.get_token_type(idx).ok();
            let tag = |f: &str| Some(format!("bulk.{f}:{:?}", v.toks[i].ty));
            if Some(r.channel) != b.get_token_channel(idx).ok() {
                return tag("channel");
            }
            if Some(r.token_type) != ty {
                return tag("type");
            }
            if r.token_index != i as u32 || r.token_index != idx.get() {
                return tag("index");
            }
            if Some(r.start) != b.get_token_start(idx).ok().map(|c| c.get()) {
                return tag("start");
            }
            if Some(r.stop) != b.get_token_end(idx).ok().map(|c| c.get()) {
                return tag("stop");
            }
            if Some(r.line) != b.get_token_start_line(idx).ok() {
                return tag("line");
            }
            if Some(r.column) != b.get_token_start_column(idx).ok() {
                return tag("column");
            }
            if Some(r.end_line) != b.get_token_end_line(idx).ok() {
                return tag("end_line");
            }
            if Some(r.end_column) != b.get_token_end_column(idx).ok() {
                return tag("end_column");
            }
            let p = b.get_token_payload(idx).ok();
            let same = match (Some(r.payload), p) {
                (Some(Payload::Float(a)), Some(Payload::Float(b))) => a.to_bits() == b.to_bits(),
                (a, b) => a == b,
            };
            if !same {
                return tag("payload");
            }
        }
        None
    }));
    match r {
        Ok(None) => {}
        Ok(Some(s)) => out.push(s),
        Err(e) => out.push(format!("bulk.panic:{}", panic_message(&*e))),
    }
}

// ---------------------------------------------------------------------------------------------
// C06: lexical shape per type and channel (DESIGN 4.2)

const SYMBOL_CHARS: &[char] = &[
    '*', '(', ')', '{', '}', '[', ']', '!', '¦', '|', '¬', '^', '~', '∘', '+', '-', '<', '>', '.',
    ',', ':', '=', '$', '@', '#', '?',
];

fn strip_pct(s: &str) -> &str {
    s.strip_prefix('%').unwrap_or(s)
}

/// `true` if `s` (a quoted run body) contains the delimiter only in doubled form
fn only_doubled(body: &str, q: char) -> bool {
    let mut it = body.chars().peekable();
    while let Some(c) = it.next() {
        if c == q {
            if it.peek() == Some(&q) {
                it.next();
            } else {
                return false;
            }
        }
    }
    true
}

fn macro_comment_extent(s: &str) -> usize {
    // `%*` ... first `;` outside quotes (inclusive) or end
    let mut quote: Option<char> = None;
    for (i, c) in s.char_indices().skip(2) {
        match c {
            ';' if quote.is_none() => return i + 1,
            '\'' | '"' => {
                if quote.is_none() {
                    quote = Some(c);
                } else if quote == Some(c) {
                    quote = None;
                }
            }
            _ => {}
        }
    }
    s.len()
}

fn char_format_shape(s: &str) -> bool {
    let Some(rest) = s.strip_prefix('$') else { return false };
    let mut it = rest.char_indices().peekable();
    let mut pos = 0;
    if let Some(&(_, c)) = it.peek() {
        if name_start(c) {
            it.next();
            pos = c.len_utf8();
            while let Some(&(i, c)) = it.peek() {
                if is_xid_continue(c) {
                    it.next();
                    pos = i + c.len_utf8();
                } else {
                    break;
                }
            }
        }
    }
    let rest = &rest[pos..];
    let d1 = rest.bytes().take_while(u8::is_ascii_digit).count();
    let rest = &rest[d1..];
    let Some(rest) = rest.strip_prefix('.') else { return false };
    rest.bytes().all(|b| b.is_ascii_digit())
}

fn datalines_start_shape(s: &str) -> bool {
    let up = s.to_ascii_uppercase();
    for kw in ["DATALINES4", "DATALINES", "CARDS4", "CARDS", "LINES4", "LINES"] {
        if let Some(rest) = up.strip_prefix(kw) {
            if let Some(ws) = rest.strip_suffix(';') {
                if ws.chars().all(char::is_whitespace) {
                    return true;
                }
            }
        }
    }
    false
}

#[allow(clippy::too_many_lines)]
pub fn c06(v: &View, out: &mut Vec<String>) {
    if !v.tiles() {
        return; // C02's business; shapes are meaningless without sane ranges
    }
    let tb = tables();
    let n = v.toks.len();
    let len = v.src.len() as u32;
    let mut hidden_parens: i32 = 0;
    for i in 0..n {
        let t = v.toks[i];
        let txt = v.text(i).unwrap_or("");
        let ty = t.ty;
        let bad = |what: &str, out: &mut Vec<String>| out.push(format!("shape.{what}:{ty:?}"));

        // ---- channel rules
        if is_comment_type(ty) != (t.ch == Ch::COMMENT) {
            bad("comment-channel", out);
        }
        if ty == T::WS && t.ch != Ch::HIDDEN {
            bad("ws-not-hidden", out);
        }
        if t.ch == Ch::HIDDEN {
            let prev_sig = (0..i)
                .rev()
                .map(|j| v.toks[j])
                .find(|p| !(p.ty == T::WS || p.ty == T::CStyleComment));
            match ty {
                T::WS | T::CatchAll | T::KwmStr | T::KwmNrStr => {}
                T::COLON => {
                    if prev_sig.map(|p| p.ty) != Some(T::MacroLabel) {
                        bad("hidden-colon-without-label", out);
                    }
                }
                T::LPAREN => {
                    hidden_parens += 1;
                    if !prev_sig.is_some_and(|p| {
                        matches!(p.ty, T::KwmStr | T::KwmNrStr) && p.ch == Ch::HIDDEN
                    }) {
                        bad("hidden-lparen-without-str", out);
                    }
                }
                T::RPAREN => {
                    hidden_parens -= 1;
                    if hidden_parens < 0 {
                        bad("hidden-rparen-unmatched", out);
                        hidden_parens = 0;
                    }
                }
                _ => bad("hidden-channel", out),
            }
        } else if matches!(ty, T::KwmStr | T::KwmNrStr | T::CatchAll) {
            bad("must-be-hidden", out);
        }

        // ---- emptiness
        if txt.is_empty()
            && !matches!(
                ty,
                T::EOF
                    | T::MacroSep
                    | T::SEMI
                    | T::LPAREN
                    | T::RPAREN
                    | T::ASSIGN
                    | T::COMMA
                    | T::FSLASH
                    | T::StringExprEnd
                    | T::MacroStringEmpty
                    | T::DatalinesData
            )
        {
            bad("empty", out);
            continue;
        }

        // ---- per type shape
        let up = || txt.to_ascii_uppercase();
        let ok = match ty {
            T::EOF => txt.is_empty() && i == n - 1,
            T::MacroSep => txt.is_empty() && cfg!(feature = "macro_sep"),
            T::MacroStringEmpty => txt.is_empty(),
            T::WS => !txt.is_empty() && txt.chars().all(char::is_whitespace),
            T::CatchAll => {
                let mut it = txt.chars();
                match (it.next(), it.next()) {
                    (Some(c), None) => {
                        !(c.is_whitespace()
                            || name_start(c)
                            || c.is_ascii_digit()
                            || matches!(c, '\'' | '"' | ';' | '/' | '&' | '%')
                            || SYMBOL_CHARS.contains(&c))
                    }
                    _ => false,
                }
            }
            T::SEMI => {
                let k = txt.len();
                if !txt.bytes().all(|b| b == b';') {
                    false
                } else {
                    match k {
                        0 | 1 => true,
                        4 => i > 0 && v.toks[i - 1].ty == T::DatalinesData,
                        2 | 3 => {
                            i > 0
                                && v.toks[i - 1].ty == T::DatalinesData
                                && v.has_error_at(E::UnterminatedDatalines, t.start)
                        }
                        _ => false,
                    }
                }
            }
            T::AMP => txt.bytes().all(|b| b == b'&'),
            T::PERCENT => txt == "%",
            T::LPAREN => txt == "(" || txt.is_empty(),
            T::RPAREN => txt == ")" || txt.is_empty(),
            T::COMMA => txt == "," || txt.is_empty(),
            T::FSLASH => txt == "/" || txt.is_empty(),
            T::ASSIGN => txt == "=" || txt == "%=" || txt.is_empty(),
            T::LCURLY => txt == "{",
            T::RCURLY => txt == "}",
            T::LBRACK => txt == "[",
            T::RBRACK => txt == "]",
            T::STAR => txt == "*",
            T::STAR2 => txt == "**",
            T::EXCL => txt == "!",
            T::EXCL2 => txt == "!!",
            T::BPIPE => txt == "¦",
            T::BPIPE2 => txt == "¦¦",
            T::PIPE => txt == "|",
            T::PIPE2 => txt == "||",
            T::PLUS => txt == "+",
            T::MINUS => txt == "-",
            T::LT => txt == "<",
            T::GT => txt == ">",
            T::LE => txt == "<=",
            T::GE => txt == ">=",
            T::LTGT => txt == "<>",
            T::GTLT => txt == "><",
            T::SoundsLike => txt == "=*",
            T::DOT | T::MacroVarTerm => txt == ".",
            T::COLON => txt == ":",
            T::DOLLAR => txt == "$",
            T::AT => txt == "@",
            T::HASH => txt == "#",
            T::QUESTION => txt == "?",
            T::NOT => matches!(strip_pct(txt), "¬" | "^" | "~" | "∘"),
            T::NE => matches!(strip_pct(txt), "¬=" | "^=" | "~=" | "∘="),
            T::IntegerLiteral | T::FloatLiteral | T::FloatExponentLiteral => {
                let b = txt.as_bytes();
                b[0].is_ascii_digit() || (b[0] == b'.' && b.len() > 1 && b[1].is_ascii_digit())
            }
            T::StringExprStart => txt == "\"",
            T::StringExprText => only_doubled(txt, '"'),
            T::StringExprEnd => {
                txt == "\""
                    || ((txt.is_empty() || only_doubled(txt, '"'))
                        && t.end == len
                        && v.has_error_naming(E::UnterminatedStringLiteral, i))
            }
            T::BitTestingLiteralExprEnd
            | T::DateLiteralExprEnd
            | T::DateTimeLiteralExprEnd
            | T::NameLiteralExprEnd
            | T::TimeLiteralExprEnd
            | T::HexStringLiteralExprEnd => {
                txt.starts_with('"') && txt[1..].to_ascii_uppercase() == literal_suffix(ty)
            }
            _ if is_quoted_literal(ty) => {
                let q = txt.chars().next().unwrap_or(' ');
                if q != '\'' && q != '"' {
                    false
                } else {
                    let sfx = literal_suffix(ty);
                    let closed = txt.len() >= 2 + sfx.len()
                        && txt.is_char_boundary(txt.len() - sfx.len())
                        && txt[txt.len() - sfx.len()..].to_ascii_uppercase() == sfx
                        && txt[..txt.len() - sfx.len()].ends_with(q)
                        && only_doubled(&txt[1..txt.len() - sfx.len() - 1], q);
                    closed
                        || (ty == T::StringLiteral
                            && t.end == len
                            && only_doubled(&txt[1..], q)
                            && v.has_error_naming(E::UnterminatedStringLiteral, i))
                }
            }
            T::CStyleComment => {
                txt.starts_with("/*")
                    && match txt[2..].find("*/") {
                        Some(p) => p + 4 == txt.len(),
                        None => t.end == len && v.has_error_naming(E::UnterminatedComment, i),
                    }
            }
            T::PredictedCommentStat => {
                txt.starts_with('*')
                    && match txt.find(';') {
                        Some(p) => p + 1 == txt.len(),
                        None => t.end == len,
                    }
            }
            T::MacroComment => {
                txt.starts_with("%*")
                    && (macro_comment_extent(txt) == txt.len())
                    && (txt.ends_with(';') || t.end == len)
                    && {
                        // must not extend past the first terminating `;`
                        let ext = macro_comment_extent(txt);
                        ext == txt.len()
                    }
            }
            T::DatalinesStart => datalines_start_shape(txt),
            T::DatalinesData => true,
            T::CharFormat => char_format_shape(txt),
            T::MacroVarResolve => {
                let k = txt.len();
                txt.bytes().all(|b| b == b'&')
                    && k.is_power_of_two()
                    && t.payload == Payload::Integer(u64::from(k.trailing_zeros()))
            }
            T::MacroString => !txt.is_empty(),
            T::MacroIdentifier | T::MacroLabel => match txt.strip_prefix('%') {
                Some(name) => {
                    is_name(name) && !(name.is_ascii() && tb.mkw.contains_key(&up()[1..]))
                }
                None => false,
            },
            T::Identifier => is_name(txt),
            _ => {
                let name = ty.to_string();
                if name.starts_with("Kwm") {
                    txt.starts_with('%') && tb.mkw.get(&up()[1..]) == Some(&ty)
                } else if name.starts_with("Kw") {
                    tb.kw.get(&up()) == Some(&ty)
                } else {
                    out.push(format!("shape.unknown-type:{ty:?}"));
                    true
                }
            }
        };
        if !ok {
            bad("text", out);
        }
        // numeric payload kinds
        match ty {
            T::IntegerLiteral => {
                if !matches!(t.payload, Payload::Integer(_)) {
                    bad("payload-kind", out);
                }
            }
            T::FloatLiteral | T::FloatExponentLiteral => {
                if !matches!(t.payload, Payload::Float(_)) {
                    bad("payload-kind", out);
                }
            }
            T::MacroVarResolve => {}
            _ => {
                if matches!(t.payload, Payload::Integer(_) | Payload::Float(_)) {
                    bad("payload-kind", out);
                }
            }
        }
    }
    if hidden_parens != 0 {
        out.push("shape.hidden-lparen-unclosed".into());
    }
}

// ---------------------------------------------------------------------------------------------
// C07: string payloads (DESIGN 4.3)

pub fn unquote_doubled(body: &str, q: char) -> (String, bool) {
    let mut s = String::with_capacity(body.len());
    let mut any = false;
    let mut it = body.chars().peekable();
    while let Some(c) = it.next() {
        if c == q && it.peek() == Some(&q) {
            it.next();
            any = true;
        }
        s.push(c);
    }
    (s, any)
}

pub fn unquote_pct(body: &str) -> (String, bool) {
    let mut s = String::with_capacity(body.len());
    let mut any = false;
    let mut it = body.chars().peekable();
    while let Some(c) = it.next() {
        if c == '%' {
            if let Some(&nx) = it.peek() {
                if matches!(nx, '\'' | '"' | '%' | '(' | ')') {
                    it.next();
                    s.push(nx);
                    any = true;
                    continue;
                }
            }
        }
        s.push(c);
    }
    (s, any)
}

pub fn decode_hex(body: &str) -> Option<String> {
    let cleaned: Vec<u8> = body.bytes().filter(|b| *b != b',').collect();
    if cleaned.len() % 2 != 0 || !cleaned.iter().all(u8::is_ascii_hexdigit) {
        return None;
    }
    let hv = |b: u8| (b as char).to_digit(16).unwrap() as u8;
    Some(
        cleaned
            .chunks(2)
            .map(|p| char::from(hv(p[0]) * 16 + hv(p[1])))
            .collect(),
    )
}

#[derive(Default)]
pub struct C07Stats {
    pub payloads: u32,
    pub after_dispatcher_char: u32,
}

#[allow(clippy::too_many_lines)]
pub fn c07(v: &View, out: &mut Vec<String>) -> C07Stats {
    let mut st = C07Stats::default();
    if !v.tiles() {
        return st;
    }
    let buf = v.res.buffer.string_literals_buffer();
    // partition
    let mut pos = 0u32;
    let mut part_ok = true;
    for t in &v.toks {
        if let Payload::StringLiteral(a, b) = t.payload {
            st.payloads += 1;
            if a != pos || b < a || b as usize > buf.len() {
                out.push(format!("payload.partition:{:?}", t.ty));
                part_ok = false;
                break;
            }
            if !buf.is_char_boundary(a as usize) || !buf.is_char_boundary(b as usize) {
                out.push(format!("payload.partition-boundary:{:?}", t.ty));
                part_ok = false;
                break;
            }
            pos = b;
        }
    }
    if part_ok && pos as usize != buf.len() {
        out.push("payload.buffer-tail".into());
    }

    // content, with %str context tracked on the token stream
    // stack of open parenthesis tokens: (is_hidden, clean) ; clean = no macro statement keyword
    // seen at this level since it was opened
    let mut parens: Vec<(bool, bool)> = Vec::new();
    for i in 0..v.toks.len() {
        let t = v.toks[i];
        let txt = v.text(i).unwrap_or("");
        let got: Option<&str> = match t.payload {
            Payload::StringLiteral(a, b) => match buf.get(a as usize..b as usize) {
                Some(s) => Some(s),
                None => {
                    continue; // reported by the partition check
                }
            },
            _ => None,
        };
        let ty = t.ty;
        match ty {
            T::LPAREN => parens.push((t.ch == Ch::HIDDEN, true)),
            T::RPAREN => {
                if let Some(&(h, _)) = parens.last() {
                    if h == (t.ch == Ch::HIDDEN) {
                        parens.pop();
                    }
                }
            }
            _ => {}
        }
        if crate::spaces::is_macro_stat_kw(ty) {
            if let Some(top) = parens.last_mut() {
                top.1 = false;
            }
        }
        // expected (unquoted text, payload must be present)
        let expect: Option<(String, bool)> = if is_quoted_literal(ty) {
            let Some(q) = txt.chars().next().filter(|c| *c == '\'' || *c == '"') else {
                continue; // C06
            };
            let unterminated = v.has_error_naming(E::UnterminatedStringLiteral, i)
                && ty == T::StringLiteral
                && t.end as usize == v.src.len();
            let sfx = literal_suffix(ty).len();
            let body = if unterminated && !(txt.len() >= 2 && txt.ends_with(q) && only_doubled(&txt[1..txt.len() - 1], q)) {
                &txt[1..]
            } else if txt.len() >= 2 + sfx {
                &txt[1..txt.len() - sfx - 1]
            } else {
                continue; // C06
            };
            let (un, any) = unquote_doubled(body, q);
            if ty == T::HexStringLiteral {
                match decode_hex(body) {
                    Some(d) => {
                        if v.has_error_naming(E::InvalidHexStringConstant, i) {
                            out.push("payload.hex-valid-but-error".into());
                        }
                        Some((d, true))
                    }
                    None => {
                        if !v.has_error_naming(E::InvalidHexStringConstant, i) {
                            out.push("payload.hex-invalid-no-error".into());
                        }
                        Some((un, any))
                    }
                }
            } else {
                Some((un, any))
            }
        } else if ty == T::StringExprText || (ty == T::StringExprEnd && txt != "\"") {
            Some(unquote_doubled(txt, '"'))
        } else if ty == T::MacroString {
            // Only the %str/%nrstr scanner attaches payloads to macro strings. Parentheses of
            // macro expressions are not necessarily balanced in the stream (an expression cut
            // short by ';'), so the stack is trusted only where it cannot be wrong: empty = no
            // %str is open; top hidden and no macro statement since = directly inside %str.
            let (un, any) = unquote_pct(txt);
            match (got.is_some(), parens.last()) {
                (true, None) => Some((txt.to_string(), false)),
                (true, Some(_)) => Some((un, any)),
                (false, Some(&(true, true))) => Some((un, any)),
                (false, _) => None,
            }
        } else {
            // no other token may carry a string payload
            if got.is_some() {
                out.push(format!("payload.unexpected-type:{ty:?}"));
            }
            None
        };
        if let Some((exp, must)) = expect {
            match got {
                Some(g) => {
                    if g != exp {
                        out.push(format!("payload.content:{ty:?}"));
                    } else if !must {
                        out.push(format!("payload.needless:{ty:?}"));
                    }
                    if matches!(txt.chars().next(), Some('%' | '/' | '&' | '\n')) {
                        st.after_dispatcher_char += 1;
                    }
                }
                None => {
                    if must {
                        out.push(format!("payload.missing:{ty:?}"));
                    }
                }
            }
        }
    }
    st
}

// ---------------------------------------------------------------------------------------------
// C09: errors anchored in the final token stream

fn expected_symbol(e: E) -> Option<T> {
    match e {
        E::MissingExpectedRParen => Some(T::RPAREN),
        E::MissingExpectedAssign => Some(T::ASSIGN),
        E::MissingExpectedLParen => Some(T::LPAREN),
        E::MissingExpectedComma => Some(T::COMMA),
        E::MissingExpectedFSlash => Some(T::FSLASH),
        E::MissingExpectedSemiOrEOF => Some(T::SEMI),
        _ => None,
    }
}

pub fn c09(v: &View, out: &mut Vec<String>) {
    use std::collections::HashMap;
    let len = v.src.len() as u32;
    let n = v.toks.len();
    // zero-width tokens per (type, offset) and "missing expected" errors per (symbol, kind, offset):
    // keeps the oracle linear on inputs with tens of thousands of recovery tokens
    let mut zw: HashMap<(u16, u32), u32> = HashMap::new();
    for t in &v.toks {
        if t.start == t.end {
            *zw.entry((t.ty as u16, t.start)).or_insert(0) += 1;
        }
    }
    let mut errs_at: HashMap<(u16, u32), u32> = HashMap::new();
    let mut sym_err_at: HashMap<(u16, u32), u32> = HashMap::new();
    for e in v.errors {
        *errs_at.entry((e.error_kind() as u16, e.at_byte_offset())).or_insert(0) += 1;
        if let Some(sym) = expected_symbol(e.error_kind()) {
            *sym_err_at.entry((sym as u16, e.at_byte_offset())).or_insert(0) += 1;
        }
    }
    let mut last_off = 0u32;
    for e in v.errors {
        let k = e.error_kind();
        let o = e.at_byte_offset();
        if o > len || !v.src.is_char_boundary(o as usize) {
            out.push(format!("anchor.offset:{k:?}"));
            continue;
        }
        if o < last_off {
            out.push(format!("anchor.order:{k:?}"));
        }
        last_off = o;
        if let Some(t) = e.last_token() {
            let ti = t.get() as usize;
            if ti >= n {
                out.push(format!("anchor.last-token-missing:{k:?}"));
            } else if v.toks[ti].start > o {
                out.push(format!("anchor.last-token-after:{k:?}"));
            }
        }
        if let Some(sym) = expected_symbol(k) {
            if !zw.contains_key(&(sym as u16, o)) {
                out.push(format!("anchor.error-without-token:{k:?}"));
            }
        }
    }
    // bijection: at one offset there are never more 'missing expected X' errors than zero-width
    // X tokens (one error may cover several virtual ')' of one unwinding); a surplus error is a
    // diagnostic that survived from lexing that was rolled back
    let mut seen: std::collections::HashSet<(u16, u32)> = std::collections::HashSet::new();
    for e in v.errors {
        let Some(sym) = expected_symbol(e.error_kind()) else { continue };
        let o = e.at_byte_offset();
        if !seen.insert((e.error_kind() as u16, o)) {
            continue; // counted at the first of them
        }
        let n_err = errs_at.get(&(e.error_kind() as u16, o)).copied().unwrap_or(0);
        let n_tok = zw.get(&(sym as u16, o)).copied().unwrap_or(0);
        if n_err > n_tok && n_tok > 0 {
            out.push(format!("anchor.more-errors-than-tokens:{:?}", e.error_kind()));
        }
    }
    // a diagnostic raised between a checkpoint and the rollback to it has survived speculative
    // lexing (the error list is not rolled back)
    if v.res.verif.rollbacks_with_new_errors > 0 {
        out.push("anchor.error-survived-rollback".to_string());
    }
    let mut reported: std::collections::HashSet<u16> = std::collections::HashSet::new();
    for t in &v.toks {
        if t.start == t.end
            && matches!(
                t.ty,
                T::RPAREN | T::ASSIGN | T::LPAREN | T::COMMA | T::FSLASH | T::SEMI
            )
        {
            if t.ty == T::SEMI && t.start == len {
                continue; // end-of-input semicolon
            }
            if !sym_err_at.contains_key(&(t.ty as u16, t.start)) && reported.insert(t.ty as u16) {
                out.push(format!("anchor.token-without-error:{:?}", t.ty));
            }
        }
    }
}

// ---------------------------------------------------------------------------------------------
// C10: balance automaton

pub fn c10(v: &View, out: &mut Vec<String>) {
    let n = v.toks.len();
    let mut depth = 0i32;
    let skip = |t: &crate::view::Tok| t.ty == T::WS || t.ty == T::CStyleComment;
    for i in 0..n {
        let t = v.toks[i];
        match t.ty {
            T::StringExprStart => depth += 1,
            T::StringExprText => {
                if depth == 0 {
                    out.push("balance.text-outside-string".into());
                }
            }
            ty if is_expr_end(ty) => {
                depth -= 1;
                if depth < 0 {
                    out.push(format!("balance.end-without-start:{ty:?}"));
                    depth = 0;
                }
            }
            T::DatalinesStart => {
                let a = v.toks.get(i + 1).map(|t| t.ty);
                let b = v.toks.get(i + 2).map(|t| t.ty);
                if a != Some(T::DatalinesData) || b != Some(T::SEMI) {
                    out.push("balance.datalines-triple".into());
                }
            }
            T::DatalinesData => {
                if i == 0 || v.toks[i - 1].ty != T::DatalinesStart {
                    out.push("balance.datalines-data-alone".into());
                }
            }
            T::MacroLabel => {
                let nx = v.toks[i + 1..].iter().find(|t| !skip(t));
                if !nx.is_some_and(|c| c.ty == T::COLON && c.ch == Ch::HIDDEN) {
                    out.push("balance.label-without-colon".into());
                }
            }
            ty if is_arg_taking_builtin(ty) => {
                let nx = v.toks[i + 1..].iter().find(|t| !skip(t));
                if !nx.is_some_and(|c| c.ty == T::LPAREN && c.ch == t.ch) {
                    out.push(format!("balance.builtin-without-lparen:{ty:?}"));
                }
            }
            _ => {}
        }
    }
    if depth != 0 {
        out.push("balance.string-expr-open".into());
    }
}

//! C08: reference numeric literal grammar (DESIGN 4.4) and the check of numeric payloads.
//! Values come from Rust's `str::parse` / `from_str_radix`, never from the lexer's own parser.

use crate::explore::{Explorer, Local, Node, Space, Visit};
use crate::props::{Config, PropRun};
use crate::spaces::{Tier, S6};
use crate::view::{cfg_hash, cfg_of, run_lexer, Outcome, View};
use sas_lexer::error::ErrorKind as E;
use sas_lexer::{Payload, TokenType as T};

#[derive(Debug, Clone, PartialEq)]
pub struct NumRef {
    pub len: usize,
    pub ty: T,
    pub payload: RefPayload,
    pub errors: Vec<E>,
}

#[derive(Debug, Clone, PartialEq)]
pub enum RefPayload {
    Int(u64),
    Float(u64),
    /// malformed literal: the payload is unspecified by the property
    Any,
}

struct Dec {
    len: usize,
    has_dot: bool,
    has_exp: bool,
    malformed: bool,
}

fn decimal_extent(b: &[u8], seen_dot: bool) -> Dec {
    let mut i = 0;
    let mut has_dot = false;
    if seen_dot {
        has_dot = true;
        i = 1;
        while i < b.len() && b[i].is_ascii_digit() {
            i += 1;
        }
    } else {
        while i < b.len() && b[i].is_ascii_digit() {
            i += 1;
        }
        if i < b.len() && b[i] == b'.' {
            has_dot = true;
            i += 1;
            while i < b.len() && b[i].is_ascii_digit() {
                i += 1;
            }
        }
    }
    let mut has_exp = false;
    let mut malformed = false;
    if i < b.len() && (b[i] == b'e' || b[i] == b'E') {
        let mut j = i + 1;
        if j < b.len() && (b[j] == b'+' || b[j] == b'-') {
            j += 1;
        }
        let ds = j;
        while j < b.len() && b[j].is_ascii_digit() {
            j += 1;
        }
        if j > ds {
            has_exp = true;
            i = j;
        } else {
            malformed = true;
            i = ds;
        }
    }
    Dec { len: i, has_dot, has_exp, malformed }
}

fn hex_value(txt: &str) -> (T, RefPayload, bool) {
    match u64::from_str_radix(txt, 16) {
        Ok(v) => (T::IntegerLiteral, RefPayload::Int(v), false),
        Err(_) => {
            // too large for u64: nearest double of the exact value
            let mut acc: f64 = 0.0;
            let exact = u128::from_str_radix(txt, 16).ok();
            let f = match exact {
                Some(v) => v as f64,
                None => {
                    for c in txt.chars() {
                        acc = acc * 16.0 + f64::from(c.to_digit(16).unwrap_or(0));
                    }
                    acc
                }
            };
            (T::FloatLiteral, RefPayload::Float(f.to_bits()), true)
        }
    }
}

/// Open-code numeric literal at the start of `rest` (a digit, or `.` + digit when `seen_dot`)
pub fn open_code(rest: &str, seen_dot: bool) -> NumRef {
    let b = rest.as_bytes();
    let d = decimal_extent(b, seen_dot);
    let mut hlen = 0;
    if !seen_dot {
        while hlen < b.len() && b[hlen].is_ascii_hexdigit() {
            hlen += 1;
        }
    }
    let next_is_x = |l: usize| l < b.len() && (b[l] == b'x' || b[l] == b'X');
    let use_hex = !seen_dot && (hlen > d.len || (hlen == d.len && next_is_x(hlen)));
    if use_hex {
        let (ty, payload, overflow) = hex_value(&rest[..hlen]);
        let mut errors = vec![];
        if overflow {
            errors.push(E::InvalidNumericLiteral);
        }
        let has_x = next_is_x(hlen);
        if !has_x {
            errors.push(E::UnterminatedHexNumericLiteral);
        }
        return NumRef { len: hlen + usize::from(has_x), ty, payload, errors };
    }
    let txt = &rest[..d.len];
    if d.malformed {
        return NumRef {
            len: d.len,
            ty: T::FloatLiteral,
            payload: RefPayload::Any,
            errors: vec![E::InvalidNumericLiteral],
        };
    }
    let fl = |ty: T| NumRef {
        len: d.len,
        ty,
        payload: RefPayload::Float(txt.parse::<f64>().map_or(0, f64::to_bits)),
        errors: vec![],
    };
    if d.has_exp {
        fl(T::FloatExponentLiteral)
    } else if d.has_dot {
        fl(T::FloatLiteral)
    } else if let Ok(v) = txt.parse::<u64>() {
        NumRef { len: d.len, ty: T::IntegerLiteral, payload: RefPayload::Int(v), errors: vec![] }
    } else {
        fl(T::FloatLiteral)
    }
}

/// Whole-operand classification inside macro expressions. `None` = not numeric (macro string).
pub fn eval_operand(txt: &str, float_mode: bool) -> Option<(T, RefPayload)> {
    let b = txt.as_bytes();
    if b.is_empty() || !b[0].is_ascii_digit() && !(float_mode && b[0] == b'.') {
        return None;
    }
    // hex form: digit, hex digits, trailing x
    if b[0].is_ascii_digit() && matches!(b[b.len() - 1], b'x' | b'X') {
        let body = &txt[..txt.len() - 1];
        if !body.is_empty() && body.bytes().all(|c| c.is_ascii_hexdigit()) {
            return u64::from_str_radix(body, 16)
                .ok()
                .map(|v| (T::IntegerLiteral, RefPayload::Int(v)));
        }
        return None;
    }
    if b.iter().all(u8::is_ascii_digit) {
        return match txt.parse::<u64>() {
            Ok(v) => Some((T::IntegerLiteral, RefPayload::Int(v))),
            Err(_) if float_mode => {
                Some((T::FloatLiteral, RefPayload::Float(txt.parse::<f64>().ok()?.to_bits())))
            }
            Err(_) => None,
        };
    }
    if !float_mode {
        return None;
    }
    let seen_dot = b[0] == b'.';
    if seen_dot && !(b.len() > 1 && b[1].is_ascii_digit()) {
        return None;
    }
    let d = decimal_extent(b, seen_dot);
    if d.len != b.len() || d.malformed {
        return None;
    }
    let v = txt.parse::<f64>().ok()?.to_bits();
    Some((if d.has_exp { T::FloatExponentLiteral } else { T::FloatLiteral }, RefPayload::Float(v)))
}

fn payload_matches(p: Payload, r: &RefPayload) -> bool {
    match (p, r) {
        (_, RefPayload::Any) => matches!(p, Payload::Float(_) | Payload::Integer(_)),
        (Payload::Integer(a), RefPayload::Int(b)) => a == *b,
        (Payload::Float(a), RefPayload::Float(b)) => a.to_bits() == *b,
        _ => false,
    }
}

fn is_numeric(t: T) -> bool {
    matches!(t, T::IntegerLiteral | T::FloatLiteral | T::FloatExponentLiteral)
}

const CONTEXTS: &[(&str, &str, &str)] = &[
    ("open", "", ""),
    ("eval", "%eval(", ")"),
    ("sysevalf", "%sysevalf(", ")"),
    ("sysfunc", "%sysfunc(f(", "))"),
    ("if", "%if ", " %then;"),
    ("do-to", "%do i=1 %to ", ";"),
    ("assign", "x=", ";"),
    // end of input inside the expression with an inner parenthesis still open: the operand is
    // the last real token and is followed by the recovery tokens of the unwinding only
    ("eval-open", "%eval((", ""),
    ("sysevalf-open", "%sysevalf((", ""),
    ("if-open", "%if (", ""),
];

fn context_of(src: &str) -> Option<(&'static str, usize, usize)> {
    // longest matching context prefix
    let mut best: Option<(&'static str, usize, usize)> = None;
    for (name, p, s) in CONTEXTS {
        if src.starts_with(p) && src.ends_with(s) && src.len() >= p.len() + s.len() {
            if best.map_or(true, |b| p.len() > b.1) {
                best = Some((name, p.len(), s.len()));
            }
        }
    }
    best
}

/// Check every numeric token (open code) / every operand token (macro expressions) of `src`.
pub fn check(src: &str) -> Option<Vec<String>> {
    let Outcome::Ok(r) = run_lexer(src) else { return None };
    if r.verif.budget_exceeded {
        return None;
    }
    let v = View::new(src, &r);
    let mut out = Vec::new();
    if !v.tiles() {
        return Some(out);
    }
    let (ctx, plen, slen) = context_of(src).unwrap_or(("open", 0, 0));
    let open = matches!(ctx, "open" | "assign");
    let float_mode = matches!(ctx, "sysevalf" | "sysfunc" | "sysevalf-open");
    let body_end = src.len() - slen;
    let mut missed = 0u32;
    for (i, t) in v.toks.iter().enumerate() {
        let (s, e) = (t.start as usize, t.end as usize);
        if s < plen || e > body_end {
            continue;
        }
        let txt = &src[s..e];
        if open {
            if !is_numeric(t.ty) {
                continue;
            }
            let seen_dot = txt.starts_with('.');
            let nr = open_code(&src[s..], seen_dot);
            if nr.len != txt.len() {
                out.push(format!("numeric.extent:{:?}", t.ty));
                continue;
            }
            if nr.ty != t.ty {
                out.push(format!("numeric.type:{:?}/ref={:?}", t.ty, nr.ty));
            }
            if !payload_matches(t.payload, &nr.payload) {
                out.push(format!("numeric.value:{:?}", t.ty));
            }
            // errors attached to this token: numeric kinds located at its end
            let mut got: Vec<E> = v
                .errors
                .iter()
                .filter(|er| {
                    matches!(er.error_kind(), E::InvalidNumericLiteral | E::UnterminatedHexNumericLiteral)
                        && er.last_token().map(|x| x.get() as usize) == Some(i)
                })
                .map(|er| {
                    if er.at_byte_offset() as usize != e {
                        out.push(format!("numeric.error-offset:{:?}", er.error_kind()));
                    }
                    er.error_kind()
                })
                .collect();
            got.sort_by_key(|k| *k as u16);
            let mut exp = nr.errors.clone();
            exp.sort_by_key(|k| *k as u16);
            if got != exp {
                out.push(format!("numeric.errors:{got:?}/ref={exp:?}"));
            }
        } else {
            match t.ty {
                T::IntegerLiteral | T::FloatLiteral | T::FloatExponentLiteral => {
                    match eval_operand(txt, float_mode) {
                        Some((ty, p)) => {
                            if ty != t.ty {
                                out.push(format!("numeric.operand-type:{:?}/ref={:?}", t.ty, ty));
                            }
                            if !payload_matches(t.payload, &p) {
                                out.push(format!("numeric.operand-value:{:?}", t.ty));
                            }
                        }
                        None => out.push(format!("numeric.operand-not-numeric:{:?}", t.ty)),
                    }
                }
                T::MacroString => {
                    if !txt.chars().any(char::is_whitespace) && eval_operand(txt, float_mode).is_some() {
                        // the whole operand must be this token: neighbours are operators,
                        // parentheses, blanks or the context's own delimiters
                        let prev_ok = i == 0 || !matches!(v.toks[i - 1].ty, T::MacroString | T::IntegerLiteral | T::FloatLiteral | T::FloatExponentLiteral);
                        let next_ok = !v.toks.get(i + 1).is_some_and(|n| {
                            matches!(n.ty, T::MacroString | T::IntegerLiteral | T::FloatLiteral | T::FloatExponentLiteral)
                        });
                        if prev_ok && next_ok {
                            // Not a violation of C08 (which speaks about tokens that *are*
                            // numeric literals); the lexer documents that operand recognition
                            // is best effort. Counted for information.
                            missed += 1;
                        }
                    }
                }
                _ => {}
            }
        }
    }
    // dispatch: an open-code source that starts with a digit starts with a numeric token
    if ctx == "open" && src.as_bytes().first().is_some_and(u8::is_ascii_digit) {
        if !v.toks.first().is_some_and(|t| is_numeric(t.ty)) {
            out.push("numeric.dispatch".into());
        }
    }
    MISSED.with(|m| m.set(m.get() + missed));
    Some(out)
}

thread_local! {
    /// numeric-looking operands lexed as macro strings, since the last `take_missed`
    static MISSED: std::cell::Cell<u32> = const { std::cell::Cell::new(0) };
}

fn take_missed() -> u32 {
    MISSED.with(|m| m.replace(0))
}

pub fn boundary_table() -> Vec<String> {
    let mut v: Vec<String> = Vec::new();
    for p in [52u32, 53, 54, 62, 63, 64] {
        let base: u128 = 1u128 << p;
        for d in [-2i64, -1, 0, 1, 2] {
            let x = (base as i128 + i128::from(d)) as u128;
            v.push(format!("{x}"));
            v.push(format!("{x}."));
            v.push(format!("{x}.0"));
            v.push(format!("{x}e0"));
            v.push(format!("0{x:x}x"));
            v.push(format!("0{x:X}X"));
        }
    }
    // what may follow a number whose HEX reading overflows (defect F-K: a `.` fraction was eaten)
    for head in ["18446744073709551616", "18446744073709551615", "99999999999999999999", "0ffffffffffffffffffff", "12345678901234567"] {
        for tail in [".b", ".b=1", ".8x", ".x", ".bx", ".e5", ".5", "p5", ".", ".a.b", "..b", ".bq"] {
            v.push(format!("{head}{tail}"));
        }
    }
    for n in [15, 16, 17, 18, 20] {
        v.push(format!("{}x", "f".repeat(n).replacen('f', "9", 1)));
        v.push(format!("0{}x", "F".repeat(n)));
        v.push(format!("0{}", "F".repeat(n)));
    }
    for a in 0..10 {
        for b in 0..10 {
            for reps in [9usize, 10, 13, 20] {
                let m = format!("{a}{b}").repeat(reps);
                v.push(m.clone());
                v.push(format!("{}.{}", &m[..3], &m[3..]));
                v.push(format!(".{m}"));
                v.push(format!("{m}e-10"));
            }
        }
    }
    for e in [0, 1, 22, 23, 308, 309, 324, 400] {
        for m in ["1", "9.999999999999999", "2.2250738585072014", "4.9", "1.7976931348623157", "0"] {
            v.push(format!("{m}e{e}"));
            v.push(format!("{m}E-{e}"));
            v.push(format!("{m}e+{e}"));
        }
    }
    // hex literals whose first 16 (17) characters are all decimal digits, or all zeros
    for t in [
        "1234567890123456x", "12345678901234567x", "123456789012345x", "9999999999999999X", "0000000000000000FFx", "00000000000000000ffx",
        "000000000000000000000000000000001x", "0000000000000000x", "1234567890123456", "01234567890123456789x",
    ] {
        v.push(t.to_string());
    }
    // decimal strings at and next to the midpoint of two adjacent doubles: the rounding is decided
    // far beyond the 17th significant digit (a parser that gives up early is 1 ulp off)
    for t in [
        "9007199254740993",
        "9007199254740993.0000000000001",
        "9007199254740992.9999999999999",
        "9007199254740995",
        "9007199254740994.99999999999999999999",
        "18446744073709553665",
        "18446744073709553664",
        "18446744073709553663",
        "1.00000000000000011102230246251565404236316680908203125",
        "1.000000000000000111022302462515654042363166809082031250000001",
        "1.00000000000000011102230246251565404236316680908203124999999",
        "100000000000000000000000",
        "100000000000000000000001",
        "99999999999999999999999",
        "2.4703282292062328e-324",
        "2.4703282292062327e-324",
        "2.47032822920623272088284396434110686182529901307162382212792841250337753635104375932649918180817996189898282347722858865463328355177969898199387398005390939063150356595155702263922908583924491051844359318028499365361525003193704576782492193656236698636584807570015857692699037063119282795585513329278343384093519780155312465972635795746227664652728272200563740064854999770965994704540208281662262378573934507363390079677619305775067401763246736009689513405355374585166611342237666786041621596804619144672918403005300575308490487653917113865916462395249126236538818796362393732804238910186723484976682350898633885879256283027559956575244555072551893136908362547791869486679949683240497058210285131854513962138377228261454376934125320985913276672363281251e-324",
        "1.7976931348623158e308",
        "1.7976931348623159e308",
        "0.1000000000000000055511151231257827021181583404541015625",
        "0.10000000000000000555111512312578270211815834045410156250000001",
        "8.5e-324",
        "123456789012345678901234567890123456789012345678901234567890.5",
    ] {
        v.push(t.to_string());
    }
    // zero-padded and over-long exponent parts
    for m in ["1", "2.5", ".5", "25"] {
        for e in ["e00001", "e+0001", "E-0003", "e+00023", "e000000000000000001", "e+1000", "E-01000", "e0000", "e00"] {
            v.push(format!("{m}{e}"));
        }
    }
    for s in [
        "1e", "1e+", "1e+x", "1ex", "1e5x", "1d", "12abcz", "1..2", "1.2.3", "1.e5", ".5e", "0x", "00x", "0fx", "1_000",
        "1e5e5", "1x1", "9fx", "0fg", "1.5x", "1e1x", "0e0", "0e", "00", "1.", "1.x", "1 x", "0ffffffffffffffffx",
        "0ffffffffffffffffffffffffffffffffffffffffx",
    ] {
        v.push(s.to_string());
    }
    v.sort();
    v.dedup();
    v
}

pub fn run(cfg: &Config) -> PropRun {
    let ex = Explorer::new(cfg.threads, cfg.cap_s, if cfg.tier == Tier::Quick { 28 } else { 33 });
    let n = if cfg.tier == Tier::Quick { 5 } else { 7 };
    let mut sp: Vec<Space> = CONTEXTS
        .iter()
        .map(|(name, p, s)| {
            let nn = if *name == "open" { n } else { n - 1 };
            Space::seeded(&format!("S6.{name}"), p, s, S6, nn)
        })
        .collect();
    if !cfg.only_spaces.is_empty() {
        sp.retain(|s| cfg.only_spaces.iter().any(|p| s.name.starts_with(p.as_str())));
    }
    let visit = |local: &mut Local, input: &str| {
        local.lexer_runs += 1;
        match check(input) {
            None => {
                local.unobservable += 1;
                Visit { cfg: None, nontrivial: false }
            }
            Some(sigs) => {
                local.add("numeric_looking_operands_left_as_macro_string(info)", u64::from(take_missed()));
                for s in sigs {
                    local.finding(format!("C08 {s}"), input);
                }
                let has_num = match run_lexer(input) {
                    Outcome::Ok(r) => {
                        let any = r.buffer.iter_tokens_infos().any(|(_, t)| is_numeric(t.token_type()));
                        if r.errors.iter().any(|e| {
                            matches!(e.error_kind(), E::InvalidNumericLiteral | E::UnterminatedHexNumericLiteral)
                        }) {
                            local.count("inputs_with_numeric_error");
                        }
                        (any, Some(cfg_hash(&r)))
                    }
                    _ => (false, None),
                };
                Visit { cfg: has_num.1, nontrivial: has_num.0 }
            }
        }
    };
    let mut report = ex.run(&sp, |l: &mut Local, node: &Node| visit(l, node.input), cfg_of);
    let table = boundary_table();
    let nctx = CONTEXTS.len() as u64;
    if cfg.only_spaces.is_empty() {
        report.absorb(ex.run_list(
            "boundary-table x contexts",
            table.len() as u64 * nctx,
            |i, buf| {
                let (_, p, s) = CONTEXTS[(i % nctx) as usize];
                buf.push_str(p);
                buf.push_str(&table[(i / nctx) as usize]);
                buf.push_str(s);
            },
            |l, input, _| visit(l, input),
        ));
    }
    report.distinct_nontrivial = ex.distinct_nontrivial.load(std::sync::atomic::Ordering::Relaxed);
    PropRun {
        report,
        rule: format!("every word of <= {n} atoms over the numeric alphabet in each of {} contexts (open code, assignment, %eval, %sysevalf, %sysfunc, %if, %do-%to), plus a boundary table (2^53/2^63/2^64 neighbourhoods, 15-20 hex digits, long mantissas, extreme exponents) in every context; non-trivial = at least one numeric literal token", CONTEXTS.len()),
        oracle: "extent, token type, payload (u64 equality / bit-exact f64 from str::parse) and numeric error kinds per the reference grammar; operands in macro expressions are numeric iff the whole operand matches".into(),
    }
}

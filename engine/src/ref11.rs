//! C11: reference lexer R11 for macro-free open code (DESIGN 4.5) and the differential check.
//! R11 shares no code path with the lexer: it is a direct longest-match reading of the grammar.

use crate::explore::{Explorer, Local, Node, Visit};
use crate::props::{Config, PropRun};
use crate::spaces::{self, Tier};
use crate::view::{cfg_hash, cfg_of, run_lexer, Outcome};
use sas_lexer::{error::ErrorKind as E, TokenChannel as Ch, TokenType as T};
use std::collections::BTreeMap;
use std::sync::OnceLock;
use unicode_ident::{is_xid_continue, is_xid_start};

fn keyword_table() -> &'static BTreeMap<String, T> {
    static KW: OnceLock<BTreeMap<String, T>> = OnceLock::new();
    KW.get_or_init(|| spaces::keywords().into_iter().collect())
}

#[derive(Debug, PartialEq, Clone)]
pub struct RTok {
    pub t: T,
    pub ch: Ch,
    pub start: usize,
}

fn name_start(c: char) -> bool {
    is_xid_start(c) || c == '_'
}

pub fn is_macro_free(s: &str) -> bool {
    let cs: Vec<char> = s.chars().collect();
    let mut i = 0;
    while i < cs.len() {
        if cs[i] == '%' {
            if i + 1 < cs.len() && (name_start(cs[i + 1]) || cs[i + 1] == '*') {
                return false;
            }
        } else if cs[i] == '&' {
            let mut j = i;
            while j < cs.len() && cs[j] == '&' {
                j += 1;
            }
            if j < cs.len() && name_start(cs[j]) {
                return false;
            }
            i = j;
            continue;
        }
        i += 1;
    }
    true
}

struct Ref<'a> {
    s: &'a str,
    pos: usize,
    toks: Vec<RTok>,
    errs: Vec<(E, usize)>,
    pending: bool,
    prev_default: Option<T>,
    kw: &'a BTreeMap<String, T>,
}

impl<'a> Ref<'a> {
    fn peek(&self) -> Option<char> {
        self.s[self.pos..].chars().next()
    }
    fn peek_at(&self, p: usize) -> Option<char> {
        self.s[p..].chars().next()
    }
    fn emit(&mut self, t: T, ch: Ch, start: usize) {
        if ch == Ch::DEFAULT {
            self.prev_default = Some(t);
        }
        self.toks.push(RTok { t, ch, start });
    }
    fn run(mut self) -> (Vec<RTok>, Vec<(E, usize)>) {
        if self.s.starts_with('\u{feff}') {
            self.pos = 3;
        }
        while let Some(c) = self.peek() {
            let st = self.pos;
            if c.is_whitespace() {
                while let Some(c) = self.peek() {
                    if c.is_whitespace() {
                        self.pos += c.len_utf8();
                    } else {
                        break;
                    }
                }
                self.emit(T::WS, Ch::HIDDEN, st);
            } else if c == '\'' || c == '"' {
                self.quoted(c);
                self.pending = true;
            } else if c == ';' {
                self.pos += 1;
                self.emit(T::SEMI, Ch::DEFAULT, st);
                self.pending = false;
            } else if c == '/' {
                if self.s[self.pos + 1..].starts_with('*') {
                    match self.s[self.pos + 2..].find("*/") {
                        Some(i) => {
                            self.pos = self.pos + 2 + i + 2;
                            self.emit(T::CStyleComment, Ch::COMMENT, st);
                        }
                        None => {
                            self.pos = self.s.len();
                            self.emit(T::CStyleComment, Ch::COMMENT, st);
                            self.errs.push((E::UnterminatedComment, self.pos));
                        }
                    }
                } else {
                    self.pos += 1;
                    self.emit(T::FSLASH, Ch::DEFAULT, st);
                    self.pending = true;
                }
            } else if c == '&' {
                while self.peek() == Some('&') {
                    self.pos += 1;
                }
                self.emit(T::AMP, Ch::DEFAULT, st);
                self.pending = true;
            } else if c == '%' {
                self.pos += 1;
                self.emit(T::PERCENT, Ch::DEFAULT, st);
                self.pending = true;
            } else if c.is_ascii_digit() {
                self.numeric(false);
                self.pending = true;
            } else if name_start(c) {
                self.ident();
            } else {
                self.symbol(c);
            }
        }
        let end = self.s.len();
        self.emit(T::EOF, Ch::DEFAULT, end);
        (self.toks, self.errs)
    }

    fn quoted(&mut self, q: char) {
        let st = self.pos;
        let mut i = self.pos + 1;
        let terminated;
        loop {
            match self.s[i..].find(q) {
                None => {
                    i = self.s.len();
                    terminated = false;
                    break;
                }
                Some(k) => {
                    let at = i + k;
                    if self.s[at + 1..].starts_with(q) {
                        i = at + 2;
                    } else {
                        i = at + 1;
                        terminated = true;
                        break;
                    }
                }
            }
        }
        if !terminated {
            self.pos = i;
            self.emit(T::StringLiteral, Ch::DEFAULT, st);
            self.errs.push((E::UnterminatedStringLiteral, i));
            return;
        }
        let body = &self.s[st + 1..i - 1];
        let c1 = self.peek_at(i).map(|c| c.to_ascii_lowercase());
        let c2 = c1.and_then(|c| self.peek_at(i + c.len_utf8())).map(|c| c.to_ascii_lowercase());
        let (t, adv) = match c1 {
            Some('b') => (T::BitTestingLiteral, 1),
            Some('d') => {
                if c2 == Some('t') {
                    (T::DateTimeLiteral, 2)
                } else {
                    (T::DateLiteral, 1)
                }
            }
            Some('n') => (T::NameLiteral, 1),
            Some('t') => (T::TimeLiteral, 1),
            Some('x') => (T::HexStringLiteral, 1),
            _ => (T::StringLiteral, 0),
        };
        self.pos = i + adv;
        self.emit(t, Ch::DEFAULT, st);
        if t == T::HexStringLiteral {
            let cleaned: String = body.chars().filter(|c| *c != ',').collect();
            let ok = cleaned.len() % 2 == 0 && cleaned.chars().all(|c| c.is_ascii_hexdigit());
            if !ok {
                self.errs.push((E::InvalidHexStringConstant, self.pos));
            }
        }
    }

    fn numeric(&mut self, seen_dot: bool) {
        let st = self.pos;
        let b = self.s[st..].as_bytes();
        // decimal extent
        let mut i = 0;
        let mut malformed = false;
        let mut has_exp = false;
        let mut has_dot = false;
        if !seen_dot {
            while i < b.len() && b[i].is_ascii_digit() {
                i += 1;
            }
            if i < b.len() && b[i] == b'.' {
                has_dot = true;
                i += 1;
                while i < b.len() && b[i].is_ascii_digit() {
                    i += 1;
                }
            }
        } else {
            has_dot = true;
            i += 1;
            while i < b.len() && b[i].is_ascii_digit() {
                i += 1;
            }
        }
        if i < b.len() && (b[i] == b'e' || b[i] == b'E') {
            let mut j = i + 1;
            if j < b.len() && (b[j] == b'+' || b[j] == b'-') {
                j += 1;
            }
            let ds = j;
            while j < b.len() && b[j].is_ascii_digit() {
                j += 1;
            }
            if j > ds {
                has_exp = true;
                i = j;
            } else {
                malformed = true;
                i = ds;
            }
        }
        let dlen = i;
        let mut hlen = 0;
        if !seen_dot {
            while hlen < b.len() && b[hlen].is_ascii_hexdigit() {
                hlen += 1;
            }
        }
        let next_is_x = |l: usize| l < b.len() && (b[l] == b'x' || b[l] == b'X');
        let use_hex = !seen_dot && (hlen > dlen || (hlen == dlen && next_is_x(hlen)));
        if use_hex {
            let txt = &self.s[st..st + hlen];
            let v = u64::from_str_radix(txt, 16);
            let mut end = st + hlen;
            let has_x = next_is_x(hlen);
            if has_x {
                end += 1;
            }
            self.pos = end;
            match v {
                Ok(_) => self.emit(T::IntegerLiteral, Ch::DEFAULT, st),
                Err(_) => {
                    self.emit(T::FloatLiteral, Ch::DEFAULT, st);
                    self.errs.push((E::InvalidNumericLiteral, end));
                }
            }
            if !has_x {
                self.errs.push((E::UnterminatedHexNumericLiteral, end));
            }
        } else {
            let txt = &self.s[st..st + dlen];
            self.pos = st + dlen;
            if malformed {
                self.emit(T::FloatLiteral, Ch::DEFAULT, st);
                self.errs.push((E::InvalidNumericLiteral, self.pos));
            } else if has_exp {
                self.emit(T::FloatExponentLiteral, Ch::DEFAULT, st);
            } else if has_dot {
                self.emit(T::FloatLiteral, Ch::DEFAULT, st);
            } else if txt.parse::<u64>().is_ok() {
                self.emit(T::IntegerLiteral, Ch::DEFAULT, st);
            } else {
                self.emit(T::FloatLiteral, Ch::DEFAULT, st);
            }
        }
    }

    fn ident(&mut self) {
        let st = self.pos;
        let prev = self.prev_default;
        let mut ascii = true;
        while let Some(c) = self.peek() {
            if is_xid_continue(c) {
                if !c.is_ascii() {
                    ascii = false;
                }
                self.pos += c.len_utf8();
            } else {
                break;
            }
        }
        let up = self.s[st..self.pos].to_ascii_uppercase();
        if ascii {
            if let Some(t) = self.kw.get(&up) {
                self.emit(*t, Ch::DEFAULT, st);
                self.pending = true;
                return;
            }
            let is4 = matches!(up.as_str(), "DATALINES4" | "CARDS4" | "LINES4");
            let is1 = matches!(up.as_str(), "DATALINES" | "CARDS" | "LINES");
            if (is4 || is1) && matches!(prev, None | Some(T::SEMI)) {
                // lookahead ws* ;
                let mut p = self.pos;
                let mut ok = false;
                while let Some(c) = self.peek_at(p) {
                    if c == ';' {
                        ok = true;
                        break;
                    } else if c.is_whitespace() {
                        p += c.len_utf8();
                    } else {
                        break;
                    }
                }
                if ok {
                    self.pos = p + 1;
                    self.emit(T::DatalinesStart, Ch::DEFAULT, st);
                    let term = if is4 { ";;;;" } else { ";" };
                    let ds = self.pos;
                    // scan
                    let mut p = self.pos;
                    let mut unterminated_at = None;
                    loop {
                        match self.s[p..].find(';') {
                            None => {
                                p = self.s.len();
                                unterminated_at = Some(p);
                                break;
                            }
                            Some(k) => {
                                let at = p + k;
                                if self.s.len() - at < term.len() {
                                    p = at;
                                    unterminated_at = Some(at);
                                    break;
                                }
                                if self.s[at..].starts_with(term) {
                                    p = at;
                                    break;
                                }
                                p = at + 1;
                            }
                        }
                    }
                    self.pos = p;
                    if let Some(u) = unterminated_at {
                        self.errs.push((E::UnterminatedDatalines, u));
                    }
                    self.emit(T::DatalinesData, Ch::DEFAULT, ds);
                    let ss = self.pos;
                    let mut n = 0;
                    while n < term.len() && self.peek() == Some(';') {
                        self.pos += 1;
                        n += 1;
                    }
                    self.emit(T::SEMI, Ch::DEFAULT, ss);
                    self.pending = false;
                    return;
                }
            }
        }
        self.emit(T::Identifier, Ch::DEFAULT, st);
        self.pending = true;
    }

    fn symbol(&mut self, c: char) {
        let st = self.pos;
        let n1 = self.peek_at(st + c.len_utf8());
        let two = |me: &mut Self, t: T, second: char| {
            me.pos = st + c.len_utf8() + second.len_utf8();
            me.emit(t, Ch::DEFAULT, st);
        };
        let one = |me: &mut Self, t: T| {
            me.pos = st + c.len_utf8();
            me.emit(t, Ch::DEFAULT, st);
        };
        match c {
            '*' => {
                if !self.pending {
                    match self.s[st + 1..].find(';') {
                        Some(k) => self.pos = st + 1 + k + 1,
                        None => self.pos = self.s.len(),
                    }
                    self.emit(T::PredictedCommentStat, Ch::COMMENT, st);
                    return;
                }
                if n1 == Some('*') {
                    two(self, T::STAR2, '*')
                } else {
                    one(self, T::STAR)
                }
            }
            '(' => one(self, T::LPAREN),
            ')' => one(self, T::RPAREN),
            '{' => one(self, T::LCURLY),
            '}' => one(self, T::RCURLY),
            '[' => one(self, T::LBRACK),
            ']' => one(self, T::RBRACK),
            '!' => {
                if n1 == Some('!') {
                    two(self, T::EXCL2, '!')
                } else {
                    one(self, T::EXCL)
                }
            }
            '¦' => {
                if n1 == Some('¦') {
                    two(self, T::BPIPE2, '¦')
                } else {
                    one(self, T::BPIPE)
                }
            }
            '|' => {
                if n1 == Some('|') {
                    two(self, T::PIPE2, '|')
                } else {
                    one(self, T::PIPE)
                }
            }
            '¬' | '^' | '~' | '∘' => {
                if n1 == Some('=') {
                    two(self, T::NE, '=')
                } else {
                    one(self, T::NOT)
                }
            }
            '+' => one(self, T::PLUS),
            '-' => one(self, T::MINUS),
            '<' => match n1 {
                Some('=') => two(self, T::LE, '='),
                Some('>') => two(self, T::LTGT, '>'),
                _ => one(self, T::LT),
            },
            '>' => match n1 {
                Some('=') => two(self, T::GE, '='),
                Some('<') => two(self, T::GTLT, '<'),
                _ => one(self, T::GT),
            },
            '.' => {
                if n1.map_or(false, |d| d.is_ascii_digit()) {
                    self.numeric(true);
                } else {
                    one(self, T::DOT)
                }
            }
            ',' => one(self, T::COMMA),
            ':' => one(self, T::COLON),
            '=' => {
                if n1 == Some('*') {
                    two(self, T::SoundsLike, '*')
                } else {
                    one(self, T::ASSIGN)
                }
            }
            '$' => {
                let mut p = st + 1;
                if let Some(c0) = self.peek_at(p) {
                    if name_start(c0) {
                        p += c0.len_utf8();
                        while let Some(c) = self.peek_at(p) {
                            if is_xid_continue(c) {
                                p += c.len_utf8();
                            } else {
                                break;
                            }
                        }
                    }
                }
                while self.peek_at(p).map_or(false, |c| c.is_ascii_digit()) {
                    p += 1;
                }
                if self.peek_at(p) == Some('.') {
                    p += 1;
                    while self.peek_at(p).map_or(false, |c| c.is_ascii_digit()) {
                        p += 1;
                    }
                    self.pos = p;
                    self.emit(T::CharFormat, Ch::DEFAULT, st);
                } else {
                    one(self, T::DOLLAR)
                }
            }
            '@' => one(self, T::AT),
            '#' => one(self, T::HASH),
            '?' => one(self, T::QUESTION),
            _ => {
                self.pos = st + c.len_utf8();
                self.emit(T::CatchAll, Ch::HIDDEN, st);
            }
        }
        self.pending = true;
    }
}


pub fn reference(s: &str) -> (Vec<RTok>, Vec<(E, usize)>) {
    Ref { s, pos: 0, toks: vec![], errs: vec![], pending: false, prev_default: None, kw: keyword_table() }.run()
}

/// differential check on one input; None = not observable (lexer did not return)
pub fn check(s: &str) -> Option<Vec<String>> {
    if !is_macro_free(s) {
        return Some(vec![]);
    }
    let Outcome::Ok(r) = run_lexer(s) else { return None };
    if r.verif.budget_exceeded {
        return None;
    }
    Some(compare(s, &r))
}

fn compare(s: &str, r: &sas_lexer::LexResult) -> Vec<String> {
    let got: Vec<RTok> = r
        .buffer
        .iter_tokens_infos()
        .map(|(_, ti)| RTok { t: ti.token_type(), ch: ti.channel(), start: ti.byte_offset().get() as usize })
        .collect();
    let gerr: Vec<(E, usize)> = r.errors.iter().map(|e| (e.error_kind(), e.at_byte_offset() as usize)).collect();
    let (rt, re) = reference(s);
    let mut out = vec![];
    if got != rt {
        let idx = got.iter().zip(rt.iter()).position(|(a, b)| a != b).unwrap_or(got.len().min(rt.len()));
        out.push(format!(
            "grammar.token:impl={:?}/ref={:?}",
            got.get(idx).map(|x| (x.t, x.ch)),
            rt.get(idx).map(|x| (x.t, x.ch))
        ));
    } else if gerr != re {
        let idx = gerr.iter().zip(re.iter()).position(|(a, b)| a != b).unwrap_or(gerr.len().min(re.len()));
        out.push(format!(
            "grammar.error:impl={:?}/ref={:?}",
            gerr.get(idx).map(|x| x.0),
            re.get(idx).map(|x| x.0)
        ));
    }
    out
}

pub fn run(cfg: &Config) -> PropRun {
    let ex = Explorer::new(cfg.threads, cfg.cap_s, if cfg.tier == Tier::Quick { 28 } else { 33 });
    let mut sp = spaces::sigma_spaces(&["S5full", "dl", "aliasopen", "cmtbody"], cfg.tier);
    // every pair and triple of symbol characters (operators are where longest-match matters)
    let syms: Vec<&str> = vec![
        "*", "(", ")", "{", "}", "[", "]", "!", "¦", "|", "¬", "^", "~", "∘", "+", "-", "<", ">", ".", ",", ":", "=",
        "$", "@", "#", "?", "&", "%", "/", ";", "'", "\"", "\\", "`", "a", "1", " ", "e", "x", "_",
    ];
    sp.push(crate::explore::Space::new("symbols", &syms, if cfg.tier == Tier::Quick { 3 } else { 4 }));
    if !cfg.only_spaces.is_empty() {
        sp.retain(|s| cfg.only_spaces.iter().any(|p| s.name.starts_with(p.as_str())));
    }
    let mut report = ex.run(
        &sp,
        |local: &mut Local, node: &Node| {
            if !is_macro_free(node.input) {
                local.count("skipped_not_macro_free");
                return Visit { cfg: None, nontrivial: false };
            }
            local.lexer_runs += 1;
            match run_lexer(node.input) {
                Outcome::Ok(r) if !r.verif.budget_exceeded => {
                    local.count("traces_compared_with_reference");
                    for s in compare(node.input, &r) {
                        local.finding(format!("C11 {s}"), node.input);
                    }
                    Visit { cfg: Some(cfg_hash(&r)), nontrivial: r.buffer.token_count() >= 3 }
                }
                _ => {
                    local.unobservable += 1;
                    Visit { cfg: None, nontrivial: false }
                }
            }
        },
        cfg_of,
    );
    // macro-free statements of the corpus, each lexed on its own and in sequence prefixes
    let corpus = spaces::load_corpus(&cfg.corpus_dir);
    let mut stmts: Vec<String> = Vec::new();
    for (_, text) in &corpus.files {
        let mut acc = String::new();
        for piece in text.split_inclusive(';') {
            if is_macro_free(piece) && !piece.contains('"') && !piece.contains('\'') && !piece.contains("/*") {
                stmts.push(piece.to_string());
                if acc.len() < 2000 {
                    acc.push_str(piece);
                    stmts.push(acc.clone());
                }
            } else {
                acc.clear();
            }
        }
    }
    // one statement per literal scanner and suffix (the macro-free ones), alone and as a value
    for l in crate::props::C15_LITERAL_B {
        for t in [(*l).to_string(), format!("x={l};"), format!("{l} {l}"), format!("{l}{l}")] {
            if is_macro_free(&t) {
                stmts.push(t);
            }
        }
    }
    // the numeric boundary table of C08 (2^53/2^63/2^64 neighbourhoods, long hex and decimal forms)
    for t in crate::numref::boundary_table() {
        stmts.push(format!("x={t};"));
        stmts.push(t);
    }
    for body in ["", "41", "4g", "41\"\"42", "\"\"", "4", "41,42", " 41 ", "é"] {
        for sfx in ["x", "X", "n", "d", "dt", "t", "b", ""] {
            stmts.push(format!("\"{body}\"{sfx}"));
            stmts.push(format!("'{}'{sfx}", body.replace('"', "'")));
        }
    }
    // macro-free snippets of the repository's inline tests, alone and in ordered pairs
    {
        let ts: Vec<String> = spaces::load_test_strings(&cfg.corpus_dir).into_iter().filter(|t| is_macro_free(t)).collect();
        for a in &ts {
            stmts.push(a.clone());
            for (i, _) in a.char_indices().skip(1) {
                stmts.push(a[..i].to_string());
            }
            for atom in spaces::S5 {
                for t in [format!("{a}{atom}"), format!("{atom}{a}")] {
                    if is_macro_free(&t) {
                        stmts.push(t);
                    }
                }
            }
            for b in &ts {
                let t = format!("{a}{b}");
                if is_macro_free(&t) {
                    stmts.push(t);
                }
                let t = format!("{a}\n{b}");
                if is_macro_free(&t) {
                    stmts.push(t);
                }
            }
        }
    }
    // hex string bodies with commas, blanks and invalid digits at every position
    stmts.extend(crate::props::hex_bodies());
    // fold-alike spellings of every keyword, suffix and in-stream data keyword (macro-free ones)
    for (host, w) in spaces::fold_alike_words() {
        let t = host.replacen("{}", &w, 1);
        if is_macro_free(&t) {
            stmts.push(t);
        }
    }
    stmts.sort();
    stmts.dedup();
    if cfg.only_spaces.is_empty() && !stmts.is_empty() {
        let r2 = ex.run_list(
            "corpus-macro-free-statements",
            stmts.len() as u64,
            |i, buf| buf.push_str(&stmts[i as usize]),
            |local, input, _| {
                local.lexer_runs += 1;
                match run_lexer(input) {
                    Outcome::Ok(r) => {
                        local.count("traces_compared_with_reference");
                        for s in compare(input, &r) {
                            local.finding(format!("C11 {s}"), input);
                        }
                        Visit { cfg: Some(cfg_hash(&r)), nontrivial: r.buffer.token_count() >= 3 }
                    }
                    _ => {
                        local.unobservable += 1;
                        Visit { cfg: None, nontrivial: false }
                    }
                }
            },
        );
        report.absorb(r2);
    }
    report.distinct_nontrivial = ex.distinct_nontrivial.load(std::sync::atomic::Ordering::Relaxed);
    PropRun {
        report,
        rule: "every word of <= N atoms of the open-code alphabet S5 (and of the symbol alphabet and the in-stream data keyword family) that passes the macro-free predicate; macro-free statements of the corpus; non-trivial = at least 3 tokens".into(),
        oracle: "(type, channel, start byte) sequence and (error kind, byte offset) list equal those of the reference lexer R11".into(),
    }
}

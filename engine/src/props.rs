//! Per property: which spaces are walked, which oracle decides, what counts as non-trivial.

use crate::canon::{canon, CErr, CPayload, Canon};
use crate::explore::{Explorer, Local, Node, Report, Space, Visit};
use crate::oracles as o;
use crate::spaces::{self, Tier};
use crate::view::{cfg_hash, cfg_of, is_closed, panic_message, run_lexer, Outcome, PosIndex, View};
use sas_lexer::error::ErrorKind as E;
use sas_lexer::{LexResult, Payload, TokenChannel as Ch, TokenType as T};
use std::panic::{self, AssertUnwindSafe};

pub struct Config {
    pub tier: Tier,
    pub threads: usize,
    pub cap_s: Option<f64>,
    pub corpus_dir: String,
    /// restrict to spaces whose name starts with one of these (debugging aid)
    pub only_spaces: Vec<String>,
}

pub struct PropRun {
    pub report: Report,
    pub rule: String,
    pub oracle: String,
}

fn filter_spaces(cfg: &Config, v: Vec<Space>) -> Vec<Space> {
    if cfg.only_spaces.is_empty() {
        v
    } else {
        // ad-hoc deeper hunts: `--spaces <name prefixes>` restricts the run, and the environment
        // variable LEXMC_N_BONUS adds levels to the selected spaces (never used by registered checks)
        let bonus: usize = std::env::var("LEXMC_N_BONUS").ok().and_then(|s| s.parse().ok()).unwrap_or(0);
        v.into_iter()
            .filter(|s| cfg.only_spaces.iter().any(|p| s.name.starts_with(p.as_str())))
            .map(|mut s| {
                s.max_len += bonus;
                s
            })
            .collect()
    }
}

// ---------------------------------------------------------------------------------------------
// C01

pub const ITER_A: u64 = 8;
pub const ITER_B: u64 = 64;
pub const TOK_A: u64 = 4;
pub const TOK_B: u64 = 8;
pub const ERR_A: u64 = 2;
pub const ERR_B: u64 = 8;

pub const TIME_LIMIT_S: f64 = 10.0;

/// user + system CPU time consumed by the calling thread, from /proc/thread-self/stat
/// (fields 14 and 15, in clock ticks of 1/100 s on Linux)
pub fn thread_cpu_secs() -> Option<f64> {
    let st = std::fs::read_to_string("/proc/thread-self/stat").ok()?;
    let rest = &st[st.rfind(')')? + 2..];
    let f: Vec<&str> = rest.split(' ').collect();
    let ut: f64 = f.get(11)?.parse().ok()?;
    let stt: f64 = f.get(12)?.parse().ok()?;
    Some((ut + stt) / 100.0)
}

pub fn c01_check(src: &str, oc: &Outcome, local: Option<&mut Local>, out: &mut Vec<String>) {
    match oc {
        Outcome::Panic(m) => out.push(format!("panic:{m}")),
        Outcome::Refused(m) => out.push(format!("refused:{m}")),
        Outcome::Ok(r) => {
            let len = src.len() as u64;
            if r.verif.budget_exceeded {
                out.push("budget-exceeded".into());
            }
            for e in &r.errors {
                if e.error_kind().is_internal() {
                    out.push(format!("internal-error:{:?}", e.error_kind()));
                    break;
                }
            }
            let toks = u64::from(r.buffer.token_count());
            let errs = r.errors.len() as u64;
            if r.verif.iterations > ITER_A * len + ITER_B {
                out.push("nonlinear.iterations".into());
            }
            if toks > TOK_A * len + TOK_B {
                out.push("nonlinear.tokens".into());
            }
            if errs > ERR_A * len + ERR_B {
                out.push("nonlinear.errors".into());
            }
            if let Some(l) = local {
                if len >= 4 {
                    let lf = len as f64;
                    l.maximum("max_iterations_per_byte(len>=4)", r.verif.iterations as f64 / lf, src);
                    l.maximum("max_tokens_per_byte(len>=4)", toks as f64 / lf, src);
                    l.maximum("max_errors_per_byte(len>=4)", errs as f64 / lf, src);
                }
                l.maximum("max_mode_stack_depth", f64::from(r.verif.max_mode_stack_depth), src);
            }
        }
    }
}

// ---------------------------------------------------------------------------------------------
// generic structural visitor

/// Run the oracle of `prop` on one input; returns signatures of failed clauses.
/// `None` = the property is not observable on this input (no result returned: C01's business).
pub fn check_one(prop: &str, src: &str, local: Option<&mut Local>) -> Option<(Vec<String>, Option<LexResult>)> {
    // CPU time of this thread (insensitive to how many other checks share the machine); the
    // clock is read for long inputs only
    let long = src.len() >= 16_384;
    let c0 = if long { thread_cpu_secs() } else { None };
    let oc = run_lexer(src);
    let secs = match (c0, if long { thread_cpu_secs() } else { None }) {
        (Some(a), Some(b)) => b - a,
        _ => 0.0,
    };
    let mut out = Vec::new();
    if prop == "C01" {
        // "the amount of work stays linear": scanner-internal loops are invisible to the iteration
        // counter, so for long inputs the CPU time of the call is bounded as well. The bound is
        // two orders of magnitude above what the slowest input of the scale family needs on a
        // loaded machine (< 0.1 s per 100 KB); it is a measurement, not an enumeration.
        if src.len() >= 16_384 && secs > TIME_LIMIT_S {
            out.push(format!("nonlinear.time:more-than-{TIME_LIMIT_S}s-cpu-for-less-than-4MB"));
        }
        c01_check(src, &oc, local, &mut out);
        return Some((out, match oc { Outcome::Ok(r) => Some(r), _ => None }));
    }
    let Outcome::Ok(r) = oc else { return None };
    if r.verif.budget_exceeded {
        return None;
    }
    let res = panic::catch_unwind(AssertUnwindSafe(|| {
        let v = View::new(src, &r);
        let mut out = Vec::new();
        match prop {
            "C02" => o::c02(&v, &mut out),
            "C03" => o::c03(&v, &PosIndex::new(src), &mut out),
            "C04" => o::c04(&v, &PosIndex::new(src), &mut out),
            "C05" => o::c05(&v, &mut out),
            "C06" => o::c06(&v, &mut out),
            "C07" => {
                o::c07(&v, &mut out);
            }
            "C09" => o::c09(&v, &mut out),
            "C10" => o::c10(&v, &mut out),
            _ => panic!("no structural oracle for {prop}"),
        }
        out
    }));
    match res {
        Ok(o) => out = o,
        Err(e) => out.push(format!("oracle-panic:{}", panic_message(&*e))),
    }
    Some((out, Some(r)))
}

fn nontrivial(prop: &str, src: &str, r: &LexResult) -> bool {
    let vi = &r.verif;
    match prop {
        "C01" => vi.max_mode_stack_depth >= 3 || vi.rollbacks > 0,
        "C02" => {
            vi.rollbacks > 0
                || r.buffer.iter_tokens_infos().any(|(_, t)| {
                    matches!(t.token_type(), T::MacroSep | T::MacroVarResolve | T::DatalinesStart)
                })
                || has_virtual(r)
        }
        "C03" => !src.is_ascii(),
        "C04" => src.contains('\n'),
        "C05" => src.contains('\n') || src.starts_with('\u{feff}') || has_virtual(r),
        "C06" => r.buffer.token_count() >= 3,
        "C07" => r
            .buffer
            .iter_tokens_infos()
            .any(|(_, t)| matches!(t.payload(), Payload::StringLiteral(..))),
        "C09" => !r.errors.is_empty(),
        "C10" => vi.end.mode_stack.len() >= 3,
        _ => true,
    }
}

fn has_virtual(r: &LexResult) -> bool {
    let infos: Vec<_> = r.buffer.iter_tokens_infos().collect();
    infos
        .windows(2)
        .any(|w| w[0].1.byte_offset() == w[1].1.byte_offset() && w[0].1.token_type() != T::EOF)
}

fn structural_visit(prop: &'static str) -> impl Fn(&mut Local, &Node) -> Visit + Sync {
    move |local: &mut Local, node: &Node| visit_text(prop, local, node.input)
}

fn visit_text(prop: &'static str, local: &mut Local, input: &str) -> Visit {
    local.lexer_runs += 1;
    match check_one(prop, input, Some(local)) {
        None => {
            local.unobservable += 1;
            Visit { cfg: None, nontrivial: false }
        }
        Some((sigs, r)) => {
            for s in sigs {
                local.finding(format!("{prop} {s}"), input);
            }
            match r {
                Some(r) => {
                    let vi = &r.verif;
                    local.cover(vi);
                    if vi.rollbacks > 0 {
                        local.count("inputs_with_rollback");
                    }
                    if vi.rollbacks_with_new_errors > 0 {
                        local.count("inputs_with_error_raised_between_checkpoint_and_rollback");
                    }
                    if !r.errors.is_empty() {
                        local.count("inputs_with_errors");
                    }
                    if is_closed(&r) {
                        local.count("inputs_ending_in_initial_configuration");
                    }
                    Visit { cfg: Some(cfg_hash(&r)), nontrivial: nontrivial(prop, input, &r) }
                }
                None => Visit { cfg: None, nontrivial: false },
            }
        }
    }
}

// ---------------------------------------------------------------------------------------------
// corpus truncations

pub struct Cuts {
    pub items: Vec<(usize, usize)>,
}

pub fn corpus_cuts(corpus: &spaces::Corpus, tier: Tier) -> Cuts {
    let mut items = Vec::new();
    for (fi, (_, text)) in corpus.files.iter().enumerate() {
        items.push((fi, text.len()));
        let every_char_limit = if tier == Tier::Quick { 1500 } else { 16 * 1024 };
        if text.len() <= every_char_limit {
            for (i, _) in text.char_indices() {
                items.push((fi, i));
            }
        } else {
            // token boundaries and line boundaries
            let mut cuts: Vec<usize> = Vec::new();
            if let Outcome::Ok(r) = run_lexer(text) {
                for (_, t) in r.buffer.iter_tokens_infos() {
                    cuts.push(t.byte_offset().get() as usize);
                }
            }
            for (i, b) in text.bytes().enumerate() {
                if b == b'\n' {
                    cuts.push(i);
                    cuts.push(i + 1);
                }
            }
            cuts.sort_unstable();
            cuts.dedup();
            let step = if tier == Tier::Quick { 7 } else { 1 };
            for c in cuts.into_iter().step_by(step) {
                if c < text.len() && text.is_char_boundary(c) {
                    items.push((fi, c));
                }
            }
        }
    }
    Cuts { items }
}

fn run_corpus(prop: &'static str, cfg: &Config, ex: &Explorer) -> Report {
    let corpus = spaces::load_corpus(&cfg.corpus_dir);
    if corpus.files.is_empty() {
        return Report::empty();
    }
    let cuts = corpus_cuts(&corpus, cfg.tier);
    ex.run_list(
        "corpus-truncations",
        cuts.items.len() as u64,
        |i, buf| {
            let (fi, c) = cuts.items[i as usize];
            buf.push_str(&corpus.files[fi].1[..c]);
        },
        |local, input, _| visit_text(prop, local, input),
    )
}

/// every truncation (at a character boundary) of every generated well-formed program: the
/// nesting of calls, strings and statements cut off by end of input
fn run_program_truncations(prop: &'static str, cfg: &Config, ex: &Explorer) -> Report {
    let progs = crate::grammar::programs(if cfg.tier == Tier::Quick { 2 } else { 3 }, true);
    let mut offs: Vec<u64> = Vec::with_capacity(progs.len() + 1);
    let mut total = 0u64;
    for p in &progs {
        offs.push(total);
        total += p.chars().count() as u64; // cuts 0..len-1 (the whole program is a G-chain input)
    }
    offs.push(total);
    ex.run_list(
        "truncations of generated programs",
        total,
        |i, buf| {
            let k = offs.partition_point(|&o| o <= i) - 1;
            let nth = (i - offs[k]) as usize;
            let p = &progs[k];
            let cut = p.char_indices().nth(nth).map_or(p.len(), |(b, _)| b);
            buf.push_str(&p[..cut]);
        },
        |local, input, _| visit_text(prop, local, input),
    )
}

/// pumped families w^k (C01 linearity)
fn run_pumped(cfg: &Config, ex: &Explorer) -> Report {
    let core = spaces::s9_core();
    let mut words: Vec<String> = Vec::new();
    for a in &core {
        words.push(a.clone());
    }
    if cfg.tier == Tier::Thorough {
        for a in &core {
            for b in &core {
                words.push(format!("{a}{b}"));
            }
        }
    }
    let ks: Vec<usize> = if cfg.tier == Tier::Quick {
        vec![16, 256, 2048]
    } else {
        vec![1, 2, 4, 8, 16, 32, 64, 128, 256, 512, 1024, 2048, 4096]
    };
    let nk = ks.len() as u64;
    ex.run_list(
        "pumped",
        words.len() as u64 * nk,
        |i, buf| {
            let w = &words[(i / nk) as usize];
            for _ in 0..ks[(i % nk) as usize] {
                buf.push_str(w);
            }
        },
        |local, input, _| visit_text("C01", local, input),
    )
}

/// words whose repetition crosses the thresholds a narrowing conversion, a fixed-size table or a
/// capacity heuristic could hide behind: every count that the lexer keeps (tokens, lines, nesting
/// depth, mode stack, literal buffer, errors, token length) is driven past 2^8 by every core
/// atom and past 2^16 by the hand-picked words below
pub const SCALE_WORDS: &[&str] = &[
    "a ", "\n", "%m(", "(", "'a''b' ", "\"&v\" ", "%str(%%)", "/*c*/", ";", "x=1;\n", "%let a=1;\n", "%macro m; ", "%do; ",
    "\u{e9}", "\r\n", "%put a;\n", "&v", "%*c;\n", "* c;\n", "datalines;\n1\n;\n", "1 ", "'a' ", "%if 1 %then ", "%eval(",
    "a=%sysfunc(f(", "\"", "'", "%nrstr(", "%m(a=", "&", "%", ")", "%end; ", "\"a\"\"b\" ", "1e5 ", "'41'x ",
];

/// (prefix, repeated word, suffix): repetition *inside* one construct - arguments of one call,
/// operands of one expression, parameters of one definition, parts of one string
pub const SCALE_CTX: &[(&str, &str, &str)] = &[
    ("%m(", "a b,", "c)"),
    ("%m(", "a=1,", "b)"),
    ("%m(", "a,", ")"),
    ("%m(", "%n,", ")"),
    ("%eval(", "1+", "1)"),
    ("%eval(", "(", "1"),
    ("%if ", "1 and ", "1 %then;"),
    ("%let a=", "&v ", ";"),
    ("%let ", "&v", "=1;"),
    ("\"", "&v ", "\""),
    ("\"", "%m() ", "\""),
    ("%macro m(", "a,", "b);%mend;"),
    ("%macro m(", "a=(,),", "b);%mend;"),
    ("%str(", "%(", ")"),
    ("%str(", "(", ")"),
    ("%sysfunc(f(", "1,", "1))"),
    ("%scan(a,1,", "(", ")"),
    ("x=", "(", "1;"),
    ("x=a", "||b", ";"),
    ("%local ", "a ", ";"),
    ("%put ", "&&", "v;"),
    ("", "%do;", ""),
    ("", "%do;%end;", ""),
    ("%macro m;", "%if 1 %then %do;", "%mend;"),
    ("datalines;\n", "1 2\n", ";"),
    ("", "&", "v"),
];

/// repetition counts around every power of two up to 2^8 (a window, a small fixed-size table, an
/// inline capacity) - used for every scale word and scale context
pub const SMALL_KS: &[usize] = &[2, 3, 4, 5, 7, 8, 9, 15, 16, 17, 31, 32, 33, 39, 40, 41, 63, 64, 65, 127, 128, 129, 255, 256];

pub fn scale_inputs(tier: Tier) -> Vec<(String, usize)> {
    let mut v: Vec<(String, usize)> = Vec::new();
    for (p, w, s) in SCALE_CTX {
        let big: &[usize] = if tier == Tier::Quick { &[257, 4_100] } else { &[257, 4_100, 66_000] };
        for k in SMALL_KS.iter().chain(big) {
            // encoded as one word: prefix \u{2} word \u{2} suffix (see make_scale)
            let nests = p.ends_with('(') && !w.contains(')') || w.contains("%do;") && !w.contains("%end");
            if nests && cfg!(debug_assertions) && *k > 4_100 {
                continue;
            }
            v.push((format!("{p}\u{2}{w}\u{2}{s}"), *k));
        }
    }
    for w in SCALE_WORDS {
        for k in SMALL_KS {
            v.push(((*w).to_string(), *k));
        }
    }
    // a long run of one special character inside the text of every scanner (after one ordinary
    // character): a look-ahead that rescans the run at every step makes the call quadratic
    for (p, s) in crate::templates::SCANNER_TEMPLATES {
        for c in ["&", "%", ".", "*", "/", "-", "'", "\"", "(", " ", "\n", "="] {
            let nests = c == "(" || p.ends_with('(');
            let k = if nests && cfg!(debug_assertions) { 4_100 } else { 300_000 };
            v.push((format!("{p}a\u{2}{c}\u{2}{s}"), k));
        }
    }
    for a in spaces::s9_core() {
        v.push((a, 300));
    }
    let big: &[usize] = if tier == Tier::Quick { &[257, 66_000] } else { &[255, 256, 257, 4097, 65_535, 65_536, 66_000, 140_000] };
    for w in SCALE_WORDS {
        // a build with debug assertions clones the mode stack in every iteration of the main loop
        // (the lexer's own infinite-loop detector), which makes deep nesting quadratic there: words
        // that nest are pumped to 2^12 in such builds and to 2^16 in the optimized builds only
        let nests = match run_lexer(&w.repeat(100)) {
            Outcome::Ok(r) => r.verif.max_mode_stack_depth > 64,
            _ => true,
        };
        let cap = if nests && cfg!(debug_assertions) { 4_100 } else { usize::MAX };
        let mut ks: Vec<usize> = big.iter().map(|k| (*k).min(cap)).collect();
        ks.dedup();
        for k in ks {
            v.push(((*w).to_string(), k));
        }
        // the same run closed by something that consumes it: a terminator or end of a statement
        v.push((format!("{w}\u{1}"), 66_000.min(cap)));
    }
    v
}

pub fn make_scale_pub(item: &(String, usize), buf: &mut String) {
    make_scale(item, buf);
}

fn make_scale(item: &(String, usize), buf: &mut String) {
    // "w\u{1}" marks "repeat w, then close with `;`"
    if item.0.contains('\u{2}') {
        let mut parts = item.0.split('\u{2}');
        let (p, w, s) = (parts.next().unwrap_or(""), parts.next().unwrap_or(""), parts.next().unwrap_or(""));
        buf.push_str(p);
        for _ in 0..item.1 {
            buf.push_str(w);
        }
        buf.push_str(s);
    } else if let Some(w) = item.0.strip_suffix('\u{1}') {
        for _ in 0..item.1 {
            buf.push_str(w);
        }
        buf.push_str(";\n)'\";\n");
    } else {
        for _ in 0..item.1 {
            buf.push_str(&item.0);
        }
    }
}

fn run_scale(prop: &'static str, cfg: &Config, ex: &Explorer) -> Report {
    let items = scale_inputs(cfg.tier);
    ex.run_list(
        "scale (w^k across the 2^8 and 2^16 thresholds)",
        items.len() as u64,
        |i, buf| make_scale(&items[i as usize], buf),
        |local, input, _| visit_text(prop, local, input),
    )
}

pub fn structural(prop: &'static str, cfg: &Config) -> PropRun {
    let (names, corpus, rule): (Vec<&str>, bool, &str) = match prop {
        "C01" => (
            vec!["S1", "S2", "S3", "S4", "S5", "S7", "S8", "S9", "seeded"],
            true,
            "every word of <= N atoms of each alphabet (plus every corpus truncation and pumped word w^k); non-trivial = mode stack depth >= 3 or a rollback taken",
        ),
        "C02" => (
            vec!["S1", "S2", "S3", "S4", "S5", "S7", "S8", "S9", "seeded"],
            true,
            "every word of <= N atoms; non-trivial = rollback, virtual token, MacroSep or multi-token emitter present",
        ),
        "C03" => (vec!["S8", "S4", "S2", "seeded"], true, "every word of <= N atoms; non-trivial = source is not pure ASCII"),
        "C04" => (vec!["S7", "S2", "S8", "seeded"], true, "every word of <= N atoms; non-trivial = source contains a line feed"),
        "C05" => (
            vec!["S1", "S2", "S4", "S7", "S8", "S9", "seeded"],
            true,
            "every word of <= N atoms; non-trivial = line feed, BOM or virtual token present",
        ),
        "C06" => (
            vec!["S1", "S2", "S3", "S4", "S5", "S7", "S8", "S9", "seeded"],
            true,
            "every word of <= N atoms; non-trivial = at least 3 tokens",
        ),
        "C07" => (vec!["S4", "S2", "seeded"], false, "every word of <= N atoms and every template x filler; non-trivial = at least one string payload"),
        "C09" => (
            vec!["S1", "S2", "S3", "S4", "S5", "S9", "seeded"],
            false,
            "every word of <= N atoms; non-trivial = at least one error reported",
        ),
        "C10" => (
            vec!["S1", "S2", "S3", "S4", "S5", "S9", "seeded"],
            true,
            "every word of <= N atoms and every corpus truncation; non-trivial = end-of-input mode stack depth >= 3",
        ),
        _ => panic!("not a structural property: {prop}"),
    };
    let ex = Explorer::new(cfg.threads, cfg.cap_s, if cfg.tier == Tier::Quick { 28 } else { 33 });
    let mut sp = spaces::sigma_spaces(&names, cfg.tier);
    match prop {
        "C03" => sp.extend(crate::templates::t3_spaces(cfg.tier)),
        "C04" => sp.extend(crate::templates::t4_spaces(cfg.tier)),
        "C07" | "C06" => sp.extend(crate::templates::t7_spaces(cfg.tier)),
        _ => {}
    }
    if prop == "C01" && cfg.tier == Tier::Thorough {
        // totality is the cheapest oracle and the one where depth pays most (F-J needed six
        // atoms): one more level for the three macro / quoting alphabets
        for (name, atoms) in [("S1.N6", spaces::S1), ("S2.N6", spaces::S2), ("S4.N6", spaces::S4)] {
            let mut s6 = Space::new(name, atoms, 6);
            s6.min_len = 6;
            sp.push(s6);
        }
    }
    let sp = filter_spaces(cfg, sp);
    // Order: the small targeted lists, then the bulk enumeration of the alphabets (smallest space
    // first), then the large lists. When the exploration budget of the tier runs out, what is cut
    // is the tail of the largest enumeration, never a small targeted list or a small alphabet.
    let mut early: Vec<Report> = Vec::new();
    // the large lists (corpus truncations, scale family, test-snippet pairs, program truncations)
    // are closures run after the bulk; the small targeted lists run before it
    let mut late: Vec<Box<dyn FnOnce() -> Report + '_>> = Vec::new();
    if corpus && cfg.only_spaces.is_empty() {
        late.push(Box::new(|| run_corpus(prop, cfg, &ex)));
    }
    if prop == "C01" && cfg.only_spaces.is_empty() {
        late.push(Box::new(|| run_pumped(cfg, &ex)));
    }
    if cfg.only_spaces.is_empty() {
        late.push(Box::new(|| run_scale(prop, cfg, &ex)));
    }
    if matches!(prop, "C07" | "C06" | "C01") && cfg.only_spaces.is_empty() {
        // every pair of characters (all of ASCII incl. controls, three non-ASCII digits/letters)
        // in the digit positions of a hex string literal, both quote kinds, both suffix cases
        let mut chars: Vec<char> = (0u8..=0x7f).map(char::from).collect();
        chars.extend(['\u{e9}', '\u{ff11}', '\u{661}']);
        let n = chars.len() as u64;
        early.push(ex.run_list(
            "hex-pair sweep (q c1 c2 q x)",
            4 * n * n,
            |i, buf| {
                let (k, i) = (i % 4, i / 4);
                let (q, sfx) = [('\'', 'x'), ('\'', 'X'), ('"', 'x'), ('"', 'X')][k as usize];
                buf.push(q);
                buf.push(chars[(i / n) as usize]);
                buf.push(chars[(i % n) as usize]);
                buf.push(q);
                buf.push(sfx);
            },
            |local, input, _| visit_text(prop, local, input),
        ));
    }
    if cfg.only_spaces.is_empty() {
        let ts = spaces::test_string_inputs(&cfg.corpus_dir, cfg.tier, true);
        if !ts.is_empty() {
            let exr = &ex;
            late.push(Box::new(move || {
                exr.run_list(
                    "snippets of the repository's inline tests: alone, inside every nesting prefix, all ordered pairs",
                    ts.len() as u64,
                    |i, buf| buf.push_str(&ts[i as usize]),
                    |local, input, _| visit_text(prop, local, input),
                )
            }));
        }
    }
    if matches!(prop, "C07" | "C06" | "C01") && cfg.only_spaces.is_empty() {
        let bodies = hex_bodies();
        early.push(ex.run_list(
            "hex bodies of 3..6 characters over {5 a F g , blank +} x quote kinds x suffix cases",
            bodies.len() as u64,
            |i, buf| buf.push_str(&bodies[i as usize]),
            |local, input, _| visit_text(prop, local, input),
        ));
    }
    if matches!(prop, "C06" | "C01" | "C02" | "C03") && cfg.only_spaces.is_empty() {
        // keywords with one letter replaced by a non-ASCII character that Unicode case mapping
        // (but not ASCII case folding) turns into that letter
        let fa: Vec<String> = spaces::fold_alike_words().into_iter().map(|(h, w)| h.replacen("{}", &w, 1)).collect();
        early.push(ex.run_list(
            "fold-alike keyword spellings",
            fa.len() as u64,
            |i, buf| buf.push_str(&fa[i as usize]),
            |local, input, _| visit_text(prop, local, input),
        ));
    }
    if matches!(prop, "C01" | "C02" | "C09" | "C10") && cfg.only_spaces.is_empty() {
        late.push(Box::new(|| run_program_truncations(prop, cfg, &ex)));
    }
    if cfg.only_spaces.is_empty() {
        let xp = spaces::exotic_pair_inputs();
        early.push(ex.run_list(
            "every atom x every exotic character class representative x continuations",
            xp.len() as u64,
            |i, buf| buf.push_str(&xp[i as usize]),
            |local, input, _| visit_text(prop, local, input),
        ));
    }
    let mut report = ex.run(&sp, structural_visit(prop), cfg_of);
    for e in early {
        report.absorb(e);
    }
    for f in late {
        report.absorb(f());
    }
    report.distinct_nontrivial = ex.distinct_nontrivial.load(std::sync::atomic::Ordering::Relaxed);
    PropRun { report, rule: rule.to_string(), oracle: format!("oracle of {prop} (DESIGN 5)") }
}

// ---------------------------------------------------------------------------------------------
// C17: BOM transparency

fn lex_canon(src: &str) -> Option<(LexResult, Canon)> {
    match run_lexer(src) {
        Outcome::Ok(r) => {
            if r.verif.budget_exceeded {
                return None;
            }
            let c = panic::catch_unwind(AssertUnwindSafe(|| canon(&r))).ok()?;
            Some((r, c))
        }
        _ => None,
    }
}

pub fn c17_check(src: &str) -> Option<Vec<String>> {
    if src.starts_with('\u{feff}') {
        return Some(vec![]);
    }
    let (_, plain) = lex_canon(src)?;
    let with = format!("\u{feff}{src}");
    let (_, bom) = lex_canon(&with)?;
    // shift the plain dump
    let mut exp = plain.clone();
    for t in &mut exp.toks {
        t.start += 3;
        t.cstart += 1;
        t.cstop += 1;
    }
    for e in &mut exp.errs {
        e.byte += 3;
        e.chr += 1;
    }
    Some(match exp.diff(&bom) {
        None => vec![],
        Some(d) => vec![format!("bom.{d}")],
    })
}

// ---------------------------------------------------------------------------------------------
// C16: ASCII case independence

fn fold_case_equal(a: &str, b: &str) -> bool {
    a.len() == b.len() && a.bytes().zip(b.bytes()).all(|(x, y)| x.eq_ignore_ascii_case(&y))
}

fn c16_compare(base: &Canon, var: &Canon) -> Option<String> {
    // everything but the literal buffer text must be identical; the buffer under case folding
    let mut v2 = var.clone();
    let lits_ok = fold_case_equal(&base.lits, &var.lits);
    v2.lits = base.lits.clone();
    if let Some(d) = base.diff(&v2) {
        return Some(d);
    }
    if !lits_ok {
        return Some("literal-buffer-text".into());
    }
    None
}

pub fn case_variants(src: &str, all_flips: bool, out: &mut Vec<String>) {
    out.clear();
    let letters: Vec<usize> = src
        .bytes()
        .enumerate()
        .filter(|(_, b)| b.is_ascii_alphabetic())
        .map(|(i, _)| i)
        .collect();
    if letters.is_empty() {
        return;
    }
    out.push(src.to_ascii_lowercase());
    out.push(src.to_ascii_uppercase());
    for phase in 0..2 {
        let mut b = src.as_bytes().to_vec();
        for (k, &i) in letters.iter().enumerate() {
            b[i] = if (k + phase) % 2 == 0 { b[i].to_ascii_lowercase() } else { b[i].to_ascii_uppercase() };
        }
        out.push(String::from_utf8(b).unwrap());
    }
    if all_flips {
        for &i in &letters {
            let mut b = src.as_bytes().to_vec();
            b[i] ^= 0x20;
            out.push(String::from_utf8(b).unwrap());
        }
    }
    out.retain(|v| v != src);
    out.sort();
    out.dedup();
}

pub fn c16_check(src: &str, local: Option<&mut Local>) -> Option<Vec<String>> {
    let (_, base) = lex_canon(src)?;
    let mut vars = Vec::new();
    case_variants(src, true, &mut vars);
    let mut out = Vec::new();
    let mut runs = 0;
    for v in &vars {
        runs += 1;
        match lex_canon(v) {
            None => out.push("case.variant-unobservable".to_string()),
            Some((_, c)) => {
                if let Some(d) = c16_compare(&base, &c) {
                    out.push(format!("case.{d}"));
                }
            }
        }
    }
    if let Some(l) = local {
        l.lexer_runs += runs;
        l.add("case_variants_compared", runs);
    }
    out.sort();
    out.dedup();
    Some(out)
}

/// hex string literals whose body has 3..6 characters of a small alphabet (commas at every
/// position relative to the digit pairs, blanks, an invalid digit, a sign), both quote kinds
pub fn hex_bodies() -> Vec<String> {
    const A: &[char] = &['5', 'a', 'F', 'g', ',', ' ', '+'];
    let mut out = Vec::new();
    let mut level: Vec<String> = vec![String::new()];
    for n in 1..=6 {
        let mut next = Vec::with_capacity(level.len() * A.len());
        for w in &level {
            for c in A {
                let mut x = w.clone();
                x.push(*c);
                next.push(x);
            }
        }
        if n >= 3 {
            for w in &next {
                out.push(format!("'{w}'x"));
                out.push(format!("\"{w}\"X"));
            }
        }
        level = next;
    }
    out
}

/// all 2^n case variants of a keyword inside a host; `host` contains `{}`
fn c16_keyword_runs(cfg: &Config, ex: &Explorer) -> Report {
    let mut words: Vec<(String, String)> = Vec::new(); // (host, word)
    let mut add = |host: &str, w: &str| words.push((host.to_string(), w.to_string()));
    for (kw, _) in spaces::keywords() {
        if kw.len() <= 14 {
            add("{}", &kw);
            add("a {} b;", &kw);
        }
    }
    for (kw, t) in spaces::macro_keywords() {
        if kw.len() <= 14 {
            let w = format!("%{kw}");
            add("{}", &w);
            if spaces::is_macro_stat_kw(t) {
                add("{} a=1;", &w);
            } else {
                add("%let x={}(a,1);", &w);
            }
        }
    }
    // every ASCII letter as the first and as a later character of a name, in every position where
    // a name is recognised by a predicate of its own (a character-class table with one wrong bit
    // shows for one letter in one case only)
    for c in b'A'..=b'Z' {
        let c = c as char;
        for w in [format!("{c}Q"), format!("Q{c}"), format!("{c}")] {
            for host in [
                "%macro {}; %mend;", "%macro m({}=1); %mend;", "%macro m(a,{}); %mend;", "%let {}=1;", "x=&{};", "x=&{}.y;", "%{}(1);", "%let x=%{}(1);", "{}=1;",
                "%{}: %put a;", "x=${}8.;", "format x {}8.2;", "%m({}=1)", "%do {}=1 %to 2; %end;", "%global {};", "%goto {};", "%symdel {};", "x='a'n.{};", "%m({})",
            ] {
                add(host, &w);
            }
        }
    }
    for m in ["EQ", "NE", "LT", "LE", "GT", "GE", "AND", "OR", "NOT", "IN"] {
        add("%if a {} b %then %put c;", m);
        add("%eval(1 {} 2)", m);
        add("%sysevalf(1.5 {} 2)", m);
    }
    for s in ["B", "D", "DT", "N", "T", "X"] {
        add("'41'{}", s);
        add("\"41\"{}", s);
        add("\"&v.41\"{}", s);
    }
    // every two-digit hex string body (both quote kinds): the decoded payload must not depend
    // on the case of a digit, whichever nibble it is in
    for hi in "0123456789ABCDEF".chars() {
        for lo in "0123456789ABCDEF".chars() {
            if hi.is_ascii_alphabetic() || lo.is_ascii_alphabetic() {
                add("{}", &format!("'{hi}{lo}'X"));
                add("x=\"{}\"X;", &format!("{hi}{lo}"));
            }
        }
    }
    for body in ["0D0A", "AB,CD", "0A0B0C", "FEDCBA", "41,4A,5F"] {
        add("'{}'X", body);
        add("%put \"{}\"X;", body);
    }
    for h in ["0AFX", "0ABCDEFX", "1E5", "1.5E-3", "0FFFFFFFFFFFFFFFFFX"] {
        add("x={};", h);
        add("%eval({})", h);
        add("%sysevalf({})", h);
    }
    add("x='0AFB'{};", "X");
    add("x='ab,CD'x{};", "");
    for d in ["DATALINES", "CARDS", "LINES", "DATALINES4", "CARDS4", "LINES4"] {
        add("{};\n1 2\n;;;;", d);
        add("data a; {};\n1 2\n;", d);
    }
    // expand to (host, word, variant index)
    let mut offs: Vec<u64> = Vec::with_capacity(words.len() + 1);
    let mut total = 0u64;
    for (_, w) in &words {
        offs.push(total);
        let n = w.bytes().filter(u8::is_ascii_alphabetic).count();
        let cap = if cfg.tier == Tier::Quick { 8 } else { 14 };
        total += 1u64 << n.min(cap);
    }
    offs.push(total);
    ex.run_list(
        "keyword-case-variants",
        total,
        |i, buf| {
            let wi = offs.partition_point(|&o| o <= i) - 1;
            let (host, w) = &words[wi];
            let mut mask = i - offs[wi];
            let mut b = w.to_ascii_uppercase().into_bytes();
            for c in &mut b {
                if c.is_ascii_alphabetic() {
                    if mask & 1 == 1 {
                        *c = c.to_ascii_lowercase();
                    }
                    mask >>= 1;
                }
            }
            let v = String::from_utf8(b).unwrap();
            buf.push_str(&host.replace("{}", &v));
        },
        |local, input, _| {
            // compare against the all-upper-case spelling
            local.lexer_runs += 2;
            let up = input.to_ascii_uppercase();
            match (lex_canon(&up), lex_canon(input)) {
                (Some((r, a)), Some((_, b))) => {
                    if let Some(d) = c16_compare(&a, &b) {
                        local.finding(format!("C16 case.{d}"), input);
                    }
                    Visit { cfg: Some(cfg_hash(&r)), nontrivial: up != input }
                }
                _ => {
                    local.unobservable += 1;
                    Visit { cfg: None, nontrivial: false }
                }
            }
        },
    )
}

// ---------------------------------------------------------------------------------------------
// C15: compositionality at closed statement boundaries

/// A is a closed prefix: initial configuration at end of input and the last token before EOF is
/// a consumed `;` or a complete comment.
thread_local! {
    static RELAXED: std::cell::Cell<bool> = const { std::cell::Cell::new(false) };
}

/// The premise of C15 read literally: initial configuration and the last token is a consumed `;`
/// or a complete statement-level comment - whatever the last default-channel token is. Such a
/// prefix composes with every continuation whose first token does not look behind (see
/// `look_behind_sensitive`).
pub fn closed_prefix_literal(src: &str, r: &LexResult) -> bool {
    RELAXED.with(|c| c.set(true));
    let v = closed_prefix(src, r);
    RELAXED.with(|c| c.set(false));
    v
}

/// B starts (after hidden tokens) with a token whose classification looks behind at the last
/// default-channel token: a macro statement keyword or label (MacroSep placement) or in-stream
/// data (must follow a `;`)
fn look_behind_sensitive(cb: &Canon) -> bool {
    let first = cb.toks.iter().find(|t| t.ch == Ch::DEFAULT && t.ty != T::EOF).map(|t| t.ty);
    let Some(t) = first else { return false };
    matches!(t, T::MacroLabel | T::MacroSep | T::DatalinesStart | T::MacroIdentifier) || spaces::is_macro_stat_kw(t)
}

/// A generated well-formed program is a closed prefix by the grammar (C15's quantifier names
/// "generated well-formed programs" next to "strings that the lexer itself leaves in the initial
/// configuration"): only the syntactic half is tested - it ends in a consumed `;` or a complete
/// statement-level comment - not what the hook says about the configuration it leaves. On a tree
/// where C12 holds the two coincide; where a change makes a well-formed program leave state
/// behind, that state is exactly what must not influence the continuation.
pub fn closed_prefix_by_grammar(src: &str, r: &LexResult) -> bool {
    BY_GRAMMAR.with(|c| c.set(true));
    let v = closed_prefix(src, r);
    BY_GRAMMAR.with(|c| c.set(false));
    v
}

thread_local! {
    static BY_GRAMMAR: std::cell::Cell<bool> = const { std::cell::Cell::new(false) };
}

pub fn closed_prefix(src: &str, r: &LexResult) -> bool {
    if !(is_closed(r) || BY_GRAMMAR.with(std::cell::Cell::get) && r.errors.is_empty()) || src.is_empty() {
        return false;
    }
    // an in-stream data block that the lexer itself reports as unterminated reaches to the end of
    // the input: whatever follows is more data, not a new statement (the `;` it may end in is a
    // fragment of the terminator, not a consumed statement end)
    if r.errors.iter().any(|e| e.error_kind() == sas_lexer::error::ErrorKind::UnterminatedDatalines) {
        return false;
    }
    let infos: Vec<_> = r.buffer.iter_tokens_infos().collect();
    if infos.len() < 2 {
        return false;
    }
    let last = infos[infos.len() - 2].1;
    let eof = infos[infos.len() - 1].1;
    let txt = &src[last.byte_offset().get() as usize..eof.byte_offset().get() as usize];
    // The initial configuration has no token to look behind at. A consumed `;` is the one
    // default-channel token every look-behind of the lexer treats like "no token" (datalines
    // prediction, MacroSep placement), so the last default-channel token must be one (or absent).
    let last_default = infos[..infos.len() - 1]
        .iter()
        .rev()
        .find(|(_, t)| t.channel() == Ch::DEFAULT)
        .map(|(_, t)| t.token_type());
    if !matches!(last_default, None | Some(T::SEMI)) && !RELAXED.with(std::cell::Cell::get) {
        return false;
    }
    match last.token_type() {
        T::SEMI => !txt.is_empty(),
        T::CStyleComment => txt.len() >= 4 && txt.ends_with("*/"),
        T::PredictedCommentStat => txt.ends_with(';'),
        // terminated by a `;` outside quotes (quotes mask the terminator in macro comments)
        T::MacroComment => {
            let mut quote: Option<char> = None;
            let mut terminated = false;
            for c in txt.chars().skip(2) {
                terminated = false;
                match c {
                    ';' if quote.is_none() => terminated = true,
                    '\'' | '"' => {
                        if quote.is_none() {
                            quote = Some(c);
                        } else if quote == Some(c) {
                            quote = None;
                        }
                    }
                    _ => {}
                }
            }
            terminated
        }
        _ => false,
    }
}

pub fn compose(a_src: &str, a: &Canon, b: &Canon) -> Canon {
    let px = PosIndex::new(a_src);
    let a_bytes = a_src.len() as u32;
    let a_chars = px.cp(a_src.len());
    let (a_end_line, a_end_col) = px.line_col(a_src.len());
    let a_ntok = a.toks.len() as u32 - 1; // without EOF
    let a_lits = a.lits.len() as u32;
    let mut toks = a.toks[..a.toks.len() - 1].to_vec();
    let shift_pos = |line: u32, col: u32| {
        if line == 1 {
            (a_end_line, col + a_end_col)
        } else {
            (line + a_end_line - 1, col)
        }
    };
    for t in &b.toks {
        let (line, col) = shift_pos(t.line, t.col);
        let (end_line, end_col) = shift_pos(t.end_line, t.end_col);
        toks.push(crate::canon::CTok {
            ty: t.ty,
            ch: t.ch,
            start: t.start + a_bytes,
            cstart: t.cstart + a_chars,
            cstop: t.cstop + a_chars,
            line,
            col,
            end_line,
            end_col,
            payload: match &t.payload {
                CPayload::Str(x, y) => CPayload::Str(x + a_lits, y + a_lits),
                p => p.clone(),
            },
        });
    }
    let mut errs = a.errs.clone();
    for e in &b.errs {
        let (line, col) = shift_pos(e.line, e.col);
        errs.push(CErr {
            kind: e.kind,
            byte: e.byte + a_bytes,
            chr: e.chr + a_chars,
            line,
            col,
            last_token: match e.last_token {
                Some(t) => Some(t + a_ntok),
                None => {
                    if a_ntok > 0 {
                        Some(a_ntok - 1)
                    } else {
                        None
                    }
                }
            },
        });
    }
    Canon {
        toks,
        errs,
        lits: format!("{}{}", a.lits, b.lits),
        line_count: a.line_count + b.line_count - 1,
    }
}

pub fn c15_check(a_src: &str, b_src: &str) -> Option<Vec<String>> {
    // a leading BOM in B is not "any string" for composition purposes: it is only a BOM at the
    // very start of a source; skip such B (the BOM case is C17's)
    if b_src.starts_with('\u{feff}') || a_src.starts_with('\u{feff}') {
        return Some(vec![]);
    }
    let (ra, ca) = lex_canon(a_src)?;
    let strict = closed_prefix(a_src, &ra);
    if !strict && !closed_prefix_literal(a_src, &ra) {
        return Some(vec![]);
    }
    let (_, cb) = lex_canon(b_src)?;
    if !strict && look_behind_sensitive(&cb) {
        return Some(vec![]);
    }
    let ab = format!("{a_src}{b_src}");
    let (_, cab) = lex_canon(&ab)?;
    let exp = compose(a_src, &ca, &cb);
    Some(match exp.diff(&cab) {
        None => vec![],
        Some(d) => vec![format!("compose.{d}")],
    })
}

pub const C15_ATOMS: &[&str] = &[
    "%let ", "%put ", "%if ", "%then ", "%do", "%end", "%macro ", "%mend", "%m", "(", ")", "=",
    ",", ";", " ", "\n", "a", "1", "&v", "'", "\"", "/*c*/", "*", "%*", "datalines", "x", "/",
    "%", "+", "$", "%str(", "%%", "''", "\"\"",
];

/// one continuation per literal / payload-carrying scanner (each also after `x=`): what a closed
/// prefix must not be able to influence
/// continuations whose first construct looks behind (labels, '*' statements, stray block ends)
/// or repeats the kind of error a prefix may have ended with
pub const C15_EXTRA_B: &[&str] = &[
    "%l:",
    "%l: x=1;",
    " %l:%put a;",
    "%l :",
    "%l:%l2:",
    "/*c*/%l:",
    "%let b=%eval(1 %then 2);",
    "x=%eval(1 %then 2);",
    "x=\"%str(a %then\";",
    "%put %sysfunc(f(1 %then 2));",
    "%do; * note; %end;",
    "%macro n; * c; %mend;",
    "*';",
    "* it's;",
    "%else %put n; *';",
    "%end;",
    "%mend;",
    "%then",
    "%to 3;",
    ")",
    "b='42'x;",
    "=1;",
    "datalines;\n1\n;",
    "%if 1 %then %do; * c; %end; %else %do; * d; %end;",
];

/// statement bodies in which a diagnostic is reported; closed by each closer in `c15_run`
pub const C15_ERROR_BODIES: &[&str] = &[
    "%eval(1 %then",
    "%let a=%eval(1+)",
    "%sysfunc(f(1 %then",
    "%m(a=%then",
    "x='41zz'x",
    "%let a 1",
    "%scan(a %then",
    "x=\"%str(a %then\"",
    "%put %substr(a %then",
    "%if 1 %then %do; %end; %else %else",
    "%do i=1 %to %then",
    "x=0ffz",
    "%let a=%sysevalf(1e- %then",
    "%if %eval(1 %then %then",
];

pub const C15_LITERAL_B: &[&str] = &[
    "\"41\"x", "'41'x", "\"4g\"x", "'4g'x", "\"a\"n", "'a b'n", "'01jan2020'd", "\"01jan2020\"d", "'a'dt", "\"a\"dt",
    "'12:00't", "\"12:00\"t", "'1'b", "\"1\"b", "\"a\"\"b\"", "'a''b'", "\"&v\"", "\"&v\"\"a\"x", "\"%m()41\"x", "\"a&v.b\"d",
    "1e5", "0ffx", "1.5", "1e", "$char8.", "8.2", "%str(a%%b)", "%nrstr(%(a)", "%let a=%str(%'x);", "é=\"é\"x",
    "\"é\"", "'é'x", "\"", "'", "\"41\"x;\n\"42\"x", "cards;\n1\n;", "lines4;\na\n;;;;", "lines;\n;", "datalines4;\n;;;;",
    "\"41\"X", "'41'X", "'a'N", "'a'D", "'a'DT", "'a'T", "'1'B",
];

/// closed statements that leave accumulated state behind (non-empty literal buffer, several
/// lines, errors already reported): what must not leak into the continuation
pub const C15_STATEFUL_A: &[&str] = &[
    "x='a''b';",
    "x=\"a\"\"b\";",
    "x='41'x;",
    "%put %str(%%);",
    "%put %nrstr(%();",
    "%let a=%str(%'x);",
    "x=1;\n;",
    "x=1;\n\ny=2;",
    "/*c\nd*/",
    "* c\n;",
    "%* c;",
    "%m(1);",
    "data a;\nrun;",
    "x='é€';",
    "/*é*/",
    "* é;",
    "%* \"it's\";",
    "%* 'a\"b';",
    // more bytes in the literal buffer than tokens in the stream
    "'a''bcdefghijklmnopqrstuvwxyz';",
    "x=\"aaaaaaaaaaaaaaaaaaaaaaaaaaaaaa\"\"b\";",
    "%put %str(%%aaaaaaaaaaaaaaaaaaaaaaaaaaaaaaaaaaaaaaaaaa);",
    "x=1e;",
    "x=0ffz;",
    "%let a=%eval(1+);",
    "%let =1;",
    "%put \"&v\"\"a\";",
    "datalines;\n1 2\n;",
    "cards4;\na;b\n;;;;",
    // every literal scanner left through its error exit (a diagnostic was reported, scratch
    // state may have been left behind), inside a statement that is closed all the same
    "a='41zz'x;",
    "a=\"53,41,5\"x;",
    "a='4'x;",
    "a=\"4g\"x;",
    "a='41,'x;",
    "x=\"&v.41zz\"x;",
    "x=1.5e+;",
    "x=0ffffffffffffffffffx;",
    "x=123456789abcdef01;",
    "%let a=%eval(0ffzx);",
    "%put %sysevalf(1e-);",
    "%let a=%scan(a);",
    "%let a=%substr(a);",
    "%let a=%sysfunc();",
    "%let a 1;",
    "%do i 1 %to 2; %end;",
    "%copy m source;",
    "%end;",
    "%mend;",
    "%m(a=(x;y));",
    "%macro q( ); %mend;",
    "%do; a b c %end;",
    "%macro cols; a b c %mend;",
];

fn c15_run(cfg: &Config) -> PropRun {
    let ex = Explorer::new(cfg.threads, cfg.cap_s, if cfg.tier == Tier::Quick { 28 } else { 33 });
    let q = cfg.tier == Tier::Quick;
    // 1. collect closed prefixes A among all words of <= n atoms (exhaustive exploration)
    let n = if q { 3 } else { 4 };
    let a_space = Space::new("C15.A", C15_ATOMS, n);
    let closed = std::sync::Mutex::new(Vec::<String>::new());
    let literal = std::sync::Mutex::new(Vec::<String>::new());
    let mut report = ex.run(
        &[a_space],
        |local: &mut Local, node: &Node| {
            local.lexer_runs += 1;
            match run_lexer(node.input) {
                Outcome::Ok(r) => {
                    let c = closed_prefix(node.input, &r);
                    if c {
                        closed.lock().unwrap().push(node.input.to_string());
                        local.count("closed_prefixes_found");
                    } else if closed_prefix_literal(node.input, &r) {
                        literal.lock().unwrap().push(node.input.to_string());
                        local.count("literal_only_closed_prefixes_found");
                    }
                    Visit { cfg: Some(cfg_hash(&r)), nontrivial: false }
                }
                _ => {
                    local.unobservable += 1;
                    Visit { cfg: None, nontrivial: false }
                }
            }
        },
        cfg_of,
    );
    let mut a_list = closed.into_inner().unwrap();
    // generated well-formed programs are closed prefixes too
    for p in crate::grammar::programs(2, false) {
        // only those that end in a consumed ';' / comment
        if let Outcome::Ok(r) = run_lexer(&p) {
            if closed_prefix_by_grammar(&p, &r) {
                a_list.push(p);
            }
        }
    }
    // the rare-context programs (every rarely used statement, blocks that end in an unterminated
    // fragment, every built-in argument position) are closed prefixes as well
    // (they are many: paired with the short continuations only, step 2c)
    let mut a2_list: Vec<String> = Vec::new();
    for p in crate::grammar::rare_statement_programs() {
        if let Outcome::Ok(r) = run_lexer(&p) {
            if closed_prefix_by_grammar(&p, &r) {
                a2_list.push(p);
            }
        }
    }
    a2_list.sort();
    a2_list.dedup();
    for p in C15_STATEFUL_A {
        if let Outcome::Ok(r) = run_lexer(p) {
            if closed_prefix(p, &r) {
                a_list.push((*p).to_string());
            } else {
                // every entry is meant to be a closed prefix on the pinned tree (checked when an
                // entry is added); under a changed lexer one may stop being closed, which is
                // then simply not a premise of the property
                eprintln!("note: C15_STATEFUL_A entry is not a closed prefix here: {p:?}");
            }
        }
    }
    let mut lit_list: Vec<String> = Vec::new();
    // the snippets of the repository's inline tests, as they are and closed by ';' / a comment
    for t in spaces::load_test_strings(&cfg.corpus_dir) {
        for closer in ["", ";", ";\n", " * c;", ";/*c*/"] {
            let p = format!("{t}{closer}");
            if let Outcome::Ok(r) = run_lexer(&p) {
                if closed_prefix(&p, &r) {
                    a_list.push(p);
                } else if closed_prefix_literal(&p, &r) {
                    lit_list.push(p);
                }
            }
        }
    }
    // every error body closed by every kind of statement closer (a ';' token, a comment statement
    // that swallows its ';', a macro comment, a trailing block comment); kept when closed here
    for body in C15_ERROR_BODIES {
        for closer in [";", " * c;", " %* c;", ";/*c*/", "; * c;", ";\n%* c;", ";\n"] {
            let p = format!("{body}{closer}");
            if let Outcome::Ok(r) = run_lexer(&p) {
                if closed_prefix(&p, &r) {
                    a_list.push(p);
                } else if closed_prefix_literal(&p, &r) {
                    lit_list.push(p);
                }
            }
        }
    }
    a_list.sort();
    a_list.dedup();
    lit_list.extend(literal.into_inner().unwrap());
    lit_list.sort();
    lit_list.dedup();
    // 2. all B of <= m atoms
    let m = if q { 2 } else { 3 };
    let mut b_list: Vec<String> = vec![String::new()];
    {
        let mut level: Vec<String> = vec![String::new()];
        for _ in 0..m {
            let mut next = Vec::with_capacity(level.len() * C15_ATOMS.len());
            for w in &level {
                for a in C15_ATOMS {
                    next.push(format!("{w}{a}"));
                }
            }
            b_list.extend(next.iter().cloned());
            level = next;
        }
    }
    for l in C15_EXTRA_B {
        b_list.push((*l).to_string());
    }
    for l in C15_LITERAL_B {
        b_list.push((*l).to_string());
        b_list.push(format!("x={l};"));
        b_list.push(format!("%put {l};"));
    }
    if !q {
        // S9 at N = 2 as continuations
        let s9 = spaces::s9();
        for a in &s9 {
            b_list.push(a.clone());
            for b in &s9 {
                b_list.push(format!("{a}{b}"));
            }
        }
        // longer closed prefixes only pair with the shorter continuation set, see below
    }
    // generated programs as continuations (they contain %str sections, strings, calls, ...)
    b_list.extend(crate::grammar::programs(if q { 1 } else { 2 }, false));
    b_list.extend(C15_STATEFUL_A.iter().map(|s| (*s).to_string()));
    let tstr = spaces::load_test_strings(&cfg.corpus_dir);
    b_list.extend(tstr.iter().cloned());
    // A byte-order mark is one only at the very start of a source (C17); a continuation that
    // starts with U+FEFF would be read as "BOM" when lexed alone and as an ordinary character
    // when it follows A, so it is not a continuation in the sense of the property.
    b_list.retain(|b| !b.starts_with('\u{feff}'));
    b_list.sort();
    b_list.dedup();
    // cache canon(B)
    let b_canon: Vec<Option<Canon>> = b_list.iter().map(|b| lex_canon(b).map(|x| x.1)).collect();
    // In the thorough tier the pair space is bounded by dropping 4-atom A's for the S9 B's:
    let a_canon: Vec<Option<Canon>> = a_list.iter().map(|a| lex_canon(a).map(|x| x.1)).collect();
    // (the bulk of the pairs - every closed prefix with every continuation - runs last, after the
    // smaller targeted pair lists and the corpus split points: a time cap cuts its tail only)
    // 2b. prefixes that are closed in the literal sense of the property only (initial
    // configuration, ends in a statement-level comment, but the last default-channel token is
    // not a ';'), with the continuations whose first token does not look behind
    let lit_canon: Vec<Option<Canon>> = lit_list.iter().map(|a| lex_canon(a).map(|x| x.1)).collect();
    let b_ins: Vec<usize> = (0..b_list.len()).filter(|i| b_canon[*i].as_ref().is_some_and(|c| !look_behind_sensitive(c))).collect();
    let nbi = b_ins.len() as u64;
    let pairs_lit = ex.run_list(
        "C15.pairs(A closed in the literal sense only, B not look-behind sensitive)",
        lit_list.len() as u64 * nbi,
        |i, buf| {
            buf.push_str(&lit_list[(i / nbi) as usize]);
            buf.push_str(&b_list[b_ins[(i % nbi) as usize]]);
        },
        |local, input, i| {
            let ai = (i / nbi) as usize;
            let bi = b_ins[(i % nbi) as usize];
            local.lexer_runs += 1;
            let (Some(ca), Some(cb)) = (&lit_canon[ai], &b_canon[bi]) else {
                local.unobservable += 1;
                return Visit { cfg: None, nontrivial: false };
            };
            match lex_canon(input) {
                None => {
                    local.unobservable += 1;
                    Visit { cfg: None, nontrivial: false }
                }
                Some((r, cab)) => {
                    let exp = compose(&lit_list[ai], ca, cb);
                    if let Some(d) = exp.diff(&cab) {
                        local.finding(format!("C15 compose.{d}"), &format!("{}\u{1f}{}", lit_list[ai], b_list[bi]));
                    }
                    Visit { cfg: Some(cfg_hash(&r)), nontrivial: !cb.errs.is_empty() || cb.toks.len() > 2 }
                }
            }
        },
    );
    report.absorb(pairs_lit);
    // 2c. the rare-context programs as closed prefixes, with the short continuations: the
    // single atoms, the hand-written look-behind / literal continuations and the statement leaves
    let mut b2: Vec<usize> = Vec::new();
    {
        let mut short: Vec<String> = C15_ATOMS.iter().map(|s| (*s).to_string()).collect();
        short.extend(C15_EXTRA_B.iter().map(|s| (*s).to_string()));
        short.extend(C15_LITERAL_B.iter().map(|s| (*s).to_string()));
        short.extend(crate::grammar::programs(0, false));
        for sh in short {
            if let Ok(i) = b_list.binary_search(&sh) {
                b2.push(i);
            }
        }
        b2.sort_unstable();
        b2.dedup();
    }
    let a2_canon: Vec<Option<Canon>> = a2_list.iter().map(|a| lex_canon(a).map(|x| x.1)).collect();
    let nb2 = b2.len() as u64;
    let pairs2 = ex.run_list(
        "C15.pairs(A rare-context programs, B short continuations)",
        a2_list.len() as u64 * nb2,
        |i, buf| {
            buf.push_str(&a2_list[(i / nb2) as usize]);
            buf.push_str(&b_list[b2[(i % nb2) as usize]]);
        },
        |local, input, i| {
            let ai = (i / nb2) as usize;
            let bi = b2[(i % nb2) as usize];
            local.lexer_runs += 1;
            let (Some(ca), Some(cb)) = (&a2_canon[ai], &b_canon[bi]) else {
                local.unobservable += 1;
                return Visit { cfg: None, nontrivial: false };
            };
            match lex_canon(input) {
                None => {
                    local.unobservable += 1;
                    Visit { cfg: None, nontrivial: false }
                }
                Some((r, cab)) => {
                    let exp = compose(&a2_list[ai], ca, cb);
                    if let Some(d) = exp.diff(&cab) {
                        local.finding(format!("C15 compose.{d}"), &format!("{}\u{1f}{}", a2_list[ai], b_list[bi]));
                    }
                    Visit { cfg: Some(cfg_hash(&r)), nontrivial: !cb.errs.is_empty() || cb.toks.len() > 2 }
                }
            }
        },
    );
    report.absorb(pairs2);
    // 3. corpus split points: A = prefix up to a closed boundary, B = the rest
    let corpus = spaces::load_corpus(&cfg.corpus_dir);
    let mut splits: Vec<(usize, usize)> = Vec::new();
    for (fi, (_, text)) in corpus.files.iter().enumerate() {
        if q && text.len() > 6000 {
            continue;
        }
        if let Outcome::Ok(r) = run_lexer(text) {
            for (_, t) in r.buffer.iter_tokens_infos() {
                if matches!(t.token_type(), T::SEMI | T::CStyleComment | T::MacroComment | T::PredictedCommentStat) {
                    // the boundary is where the *next* token starts; computed below
                }
            }
            let infos: Vec<_> = r.buffer.iter_tokens_infos().collect();
            for w in infos.windows(2) {
                if matches!(w[0].1.token_type(), T::SEMI | T::CStyleComment | T::MacroComment | T::PredictedCommentStat) {
                    splits.push((fi, w[1].1.byte_offset().get() as usize));
                }
            }
        }
    }
    let sp = ex.run_list(
        "C15.corpus-splits",
        splits.len() as u64,
        |i, buf| {
            let (fi, c) = splits[i as usize];
            buf.push_str(&corpus.files[fi].1[..c]);
        },
        |local, a_src, i| {
            let (fi, c) = splits[i as usize];
            let b_src = &corpus.files[fi].1[c..];
            local.lexer_runs += 3;
            match c15_check(a_src, b_src) {
                None => {
                    local.unobservable += 1;
                    Visit { cfg: None, nontrivial: false }
                }
                Some(sigs) => {
                    let closed = lex_canon(a_src).map_or(false, |(r, _)| closed_prefix(a_src, &r));
                    if closed {
                        local.count("corpus_split_points_closed");
                    }
                    for s in sigs {
                        local.finding(format!("C15 {s}"), &format!("{a_src}\u{1f}{b_src}"));
                    }
                    Visit { cfg: None, nontrivial: closed }
                }
            }
        },
    );
    report.absorb(sp);
    let nb = b_list.len() as u64;
    let total = a_list.len() as u64 * nb;
    let pairs = ex.run_list(
        "C15.pairs(A closed, B)",
        total,
        |i, buf| {
            buf.push_str(&a_list[(i / nb) as usize]);
            buf.push_str(&b_list[(i % nb) as usize]);
        },
        |local, input, i| {
            let ai = (i / nb) as usize;
            let bi = (i % nb) as usize;
            local.lexer_runs += 1;
            let (Some(ca), Some(cb)) = (&a_canon[ai], &b_canon[bi]) else {
                local.unobservable += 1;
                return Visit { cfg: None, nontrivial: false };
            };
            match lex_canon(input) {
                None => {
                    local.unobservable += 1;
                    Visit { cfg: None, nontrivial: false }
                }
                Some((r, cab)) => {
                    let exp = compose(&a_list[ai], ca, cb);
                    if let Some(d) = exp.diff(&cab) {
                        local.finding(format!("C15 compose.{d}"), &format!("{}\u{1f}{}", a_list[ai], b_list[bi]));
                    }
                    Visit { cfg: Some(cfg_hash(&r)), nontrivial: !cb.errs.is_empty() || cb.toks.len() > 2 }
                }
            }
        },
    );
    report.absorb(pairs);
    report.distinct_nontrivial = ex.distinct_nontrivial.load(std::sync::atomic::Ordering::Relaxed);
    PropRun {
        report,
        rule: format!(
            "pairs (A, B): A = every closed prefix among all words of <= {n} atoms of a {}-atom alphabet plus all generated programs of depth <= 2, B = every word of <= {m} atoms (thorough: plus every word of <= 2 atoms of S9); plus every closed split point of every corpus file; plus every prefix that is closed in the literal sense of the property only (initial configuration, ends in a statement-level comment, last default-channel token not a ';': among the words of <= {n} atoms, the state-carrying prefixes and 14 error bodies x 7 statement closers) with every continuation whose first token does not look behind (not a macro statement keyword, label, call or in-stream data); non-trivial = B produces more than one token or an error; witness format: A<US>B",
            C15_ATOMS.len()
        ),
        oracle: "lex(A.B) == lex(A) without EOF ++ shift(lex(B)) on tokens, payloads, literal buffer, errors, lines".into(),
    }
}

// ---------------------------------------------------------------------------------------------
// dispatcher

pub fn run_property(prop: &'static str, cfg: &Config) -> PropRun {
    match prop {
        "C01" | "C02" | "C03" | "C04" | "C05" | "C06" | "C07" | "C09" | "C10" => structural(prop, cfg),
        "C17" => {
            let ex = Explorer::new(cfg.threads, cfg.cap_s, if cfg.tier == Tier::Quick { 28 } else { 33 });
            let mut sp = spaces::sigma_spaces(&["S1", "S2", "S3", "S4", "S5", "S7", "S8", "S9", "seeded"], cfg.tier);
            // the payload templates (quoted and hex literals whose bytes spell text in some encoding):
            // a byte-order mark must not change how a payload is decoded
            sp.extend(crate::templates::t7_spaces(cfg.tier));
            let sp = filter_spaces(cfg, sp);
            // (the targeted list first: a time cap then cuts the bulk enumeration, not this)
            let mut early: Option<Report> = None;
            if cfg.only_spaces.is_empty() {
                // first characters that share leading bytes with the BOM (EF BB BF), its
                // neighbours in every UTF-8 length class, and the fold-alike keyword spellings
                let mut firsts: Vec<String> = Vec::new();
                for c in [
                    '\u{fefe}', '\u{ff00}', '\u{fec0}', '\u{feff}', '\u{fffd}', '\u{f000}', '\u{ff41}', '\u{ff05}', '\u{e000}', '\u{efff}', '\u{ffe6}',
                    '\u{10000}', '\u{ef}', '\u{bb}', '\u{bf}', '\u{7ff}', '\u{800}', '\u{fb01}', '\u{fe00}', '\u{2060}', '\u{200b}', '\u{fffe}',
                ] {
                    for tail in ["", "a", ";", " x=1;", "\n", "%let a=1;", "\u{feff}", "'s'", "\"&v\"", "/*c*/", "1"] {
                        if c != '\u{feff}' {
                            firsts.push(format!("{c}{tail}"));
                        }
                        firsts.push(format!("a{c}{tail}"));
                        firsts.push(format!("\n{c}{tail}"));
                    }
                }
                firsts.extend(spaces::fold_alike_words().into_iter().map(|(h, w)| h.replacen("{}", &w, 1)));
                firsts.extend(spaces::test_string_inputs(&cfg.corpus_dir, cfg.tier, true));
                early = Some(ex.run_list(
                    "BOM look-alike first characters x tails, fold-alike spellings",
                    firsts.len() as u64,
                    |i, buf| buf.push_str(&firsts[i as usize]),
                    |local, input, _| {
                        local.lexer_runs += 2;
                        match c17_check(input) {
                            None => {
                                local.unobservable += 1;
                                Visit { cfg: None, nontrivial: false }
                            }
                            Some(sigs) => {
                                for s in sigs {
                                    local.finding(format!("C17 {s}"), input);
                                }
                                Visit { cfg: None, nontrivial: true }
                            }
                        }
                    },
                ));
            }
            let mut report = ex.run(
                &sp,
                |local: &mut Local, node: &Node| {
                    local.lexer_runs += 2;
                    match c17_check(node.input) {
                        None => {
                            local.unobservable += 1;
                            Visit { cfg: None, nontrivial: false }
                        }
                        Some(sigs) => {
                            for s in sigs {
                                local.finding(format!("C17 {s}"), node.input);
                            }
                            Visit {
                                cfg: cfg_of(&format!("\u{feff}{}", node.input)),
                                nontrivial: !node.input.starts_with('\u{feff}') && !node.input.is_empty(),
                            }
                        }
                    }
                },
                cfg_of,
            );
            if let Some(e) = early {
                report.absorb(e);
            }
            report.distinct_nontrivial = ex.distinct_nontrivial.load(std::sync::atomic::Ordering::Relaxed);
            PropRun {
                report,
                rule: "every word s of <= N atoms not starting with U+FEFF, lexed with and without a BOM prefix; first characters that share UTF-8 leading bytes with the BOM; non-trivial = s non-empty".into(),
                oracle: "lex(BOM.s) == lex(s) with byte offsets +3, char offsets +1, same lines/columns/payloads/errors".into(),
            }
        }
        "C16" => {
            let ex = Explorer::new(cfg.threads, cfg.cap_s, if cfg.tier == Tier::Quick { 28 } else { 33 });
            // every input is lexed once per case variant (about 4 + number of letters times):
            // the three macro/string alphabets run at the full depth of the tier, the others one less
            let mut sp = spaces::sigma_spaces(&["S1", "S2", "S4", "dl"], cfg.tier);
            sp.extend(spaces::shrink(spaces::sigma_spaces(&["S3", "S5", "S9"], cfg.tier), 1));
            let sp = filter_spaces(cfg, sp);
            // (the keyword / name-letter tables first, the bulk enumeration after them)
            let kw_report = if cfg.only_spaces.is_empty() { Some(c16_keyword_runs(cfg, &ex)) } else { None };
            let mut report = ex.run(
                &sp,
                |local: &mut Local, node: &Node| {
                    local.lexer_runs += 1;
                    match c16_check(node.input, Some(local)) {
                        None => {
                            local.unobservable += 1;
                            Visit { cfg: None, nontrivial: false }
                        }
                        Some(sigs) => {
                            for s in sigs {
                                local.finding(format!("C16 {s}"), node.input);
                            }
                            Visit {
                                cfg: cfg_of(node.input),
                                nontrivial: node.input.bytes().any(|b| b.is_ascii_alphabetic()),
                            }
                        }
                    }
                },
                cfg_of,
            );
            if let Some(k) = kw_report {
                report.absorb(k);
            }
            if cfg.only_spaces.is_empty() {
                // generated programs: every statement and built-in of the construct grammar
                let mut progs = crate::grammar::programs(2, false);
                progs.extend(crate::grammar::rare_programs(" "));
                progs.extend(spaces::test_string_inputs(&cfg.corpus_dir, cfg.tier, false));
                if cfg.tier != Tier::Quick {
                    progs.extend(crate::grammar::rare_programs("/*c*/ "));
                }
                report.absorb(ex.run_list(
                    "G programs (chains of depth<=2, rare contexts) x case variants",
                    progs.len() as u64,
                    |i, buf| buf.push_str(&progs[i as usize]),
                    |local, input, _| match c16_check(input, Some(local)) {
                        None => {
                            local.unobservable += 1;
                            Visit { cfg: None, nontrivial: false }
                        }
                        Some(sigs) => {
                            for s in sigs {
                                local.finding(format!("C16 {s}"), input);
                            }
                            Visit { cfg: None, nontrivial: true }
                        }
                    },
                ));
            }
            report.distinct_nontrivial = ex.distinct_nontrivial.load(std::sync::atomic::Ordering::Relaxed);
            PropRun {
                report,
                rule: "every word of <= N atoms (S1, S2, S4, datalines family) resp. <= N-1 atoms (S3, S5, S9) x {lower, UPPER, alternating (2 phases), every single-letter flip}; every keyword/mnemonic/suffix/hex/exponent spelling x all 2^n case variants alone and in host contexts; non-trivial = input contains an ASCII letter".into(),
                oracle: "dump(variant) == dump(original) except literal buffer text compared under ASCII case folding".into(),
            }
        }
        "C15" => c15_run(cfg),
        "C18" => {
            let ex = Explorer::new(cfg.threads, cfg.cap_s, if cfg.tier == Tier::Quick { 28 } else { 33 });
            let sp = filter_spaces(cfg, spaces::sigma_spaces(&["S1", "S2", "S3", "S9", "seeded"], cfg.tier));
            let mut report = ex.run(
                &sp,
                |local: &mut Local, node: &Node| {
                    local.lexer_runs += 1;
                    match c18_placement(node.input) {
                        None => {
                            local.unobservable += 1;
                            Visit { cfg: None, nontrivial: false }
                        }
                        Some((sigs, seps, cfgh)) => {
                            for s in sigs {
                                local.finding(format!("C18 {s}"), node.input);
                            }
                            local.add("macro_sep_tokens_checked", u64::from(seps));
                            Visit { cfg: Some(cfgh), nontrivial: seps > 0 }
                        }
                    }
                },
                cfg_of,
            );
            report.distinct_nontrivial = ex.distinct_nontrivial.load(std::sync::atomic::Ordering::Relaxed);
            PropRun {
                report,
                rule: "every word of <= N atoms of the macro alphabets (placement rule, this build) and block digests of the same enumeration under both feature configurations (driver); non-trivial = at least one MacroSep token".into(),
                oracle: "MacroSep is zero-width, on the default channel, directly before a macro statement keyword or macro label, and the previous default-channel token exists and is not ';', a label, %then or %else; stream without MacroSep == stream of the build without the feature".into(),
            }
        }
        "C08" => crate::numref::run(cfg),
        "C11" => crate::ref11::run(cfg),
        "C12" | "C13" | "C14" => crate::grammar::run(prop, cfg),
        _ => panic!("unknown property {prop}"),
    }
}

/// C18 placement rule on one input: (failed clauses, number of MacroSep tokens, cfg hash)
pub fn c18_placement(src: &str) -> Option<(Vec<String>, u32, u64)> {
    let Outcome::Ok(r) = run_lexer(src) else { return None };
    if r.verif.budget_exceeded {
        return None;
    }
    let v = View::new(src, &r);
    let mut out = Vec::new();
    let mut seps = 0;
    for (i, t) in v.toks.iter().enumerate() {
        if t.ty != T::MacroSep {
            continue;
        }
        seps += 1;
        if !cfg!(feature = "macro_sep") {
            out.push("sep.without-feature".to_string());
        }
        if t.start != t.end || t.ch != Ch::DEFAULT {
            out.push("sep.not-zero-width-default".to_string());
        }
        match v.toks.get(i + 1) {
            Some(n) if n.ty == T::MacroLabel || spaces::is_macro_stat_kw(n.ty) => {
                if n.start != t.start {
                    out.push("sep.not-adjacent".to_string());
                }
            }
            Some(n) => out.push(format!("sep.before:{:?}", n.ty)),
            None => out.push("sep.last".to_string()),
        }
        match v.toks[..i].iter().rev().find(|p| p.ch == Ch::DEFAULT) {
            None => out.push("sep.first-default-token".to_string()),
            Some(p) => {
                if matches!(p.ty, T::SEMI | T::MacroLabel | T::KwmThen | T::KwmElse | T::MacroSep) {
                    out.push(format!("sep.after:{:?}", p.ty));
                }
            }
        }
    }
    Some((out, seps, cfg_hash(&r)))
}

/// single-input replay for any property; returns failed clauses
pub fn replay(prop: &str, input: &str) -> Option<Vec<String>> {
    match prop {
        "C17" => c17_check(input),
        "C16" => c16_check(input, None),
        "C15" => {
            let (a, b) = input.split_once('\u{1f}').unwrap_or((input, ""));
            c15_check(a, b)
        }
        "C08" => crate::numref::check(input),
        "C11" => crate::ref11::check(input),
        "C12" | "C13" | "C14" => crate::grammar::replay(prop, input),
        "C18" => c18_placement(input).map(|x| x.0),
        _ => check_one(prop, input, None).map(|x| x.0),
    }
}

#[allow(dead_code)]
fn unused(_: E, _: Ch) {}

//! Stateless bounded-exhaustive exploration of the real lexer.
//!
//! A space is (prefix, alphabet of atoms, suffix, N). The explorer enumerates, level by level
//! (n = 0, 1, .., N), *every* word of n atoms, builds `prefix + word + suffix`, and hands it to
//! the visitor, which runs the real lexer and the oracle of the property. Levels are complete
//! passes: when a wall-clock cap is hit in level n, levels < n are complete and reported as such.
//!
//! For every node the visitor returns the hash of the lexer's end-of-input configuration
//! (hook H2). The explorer records the set of configurations (`states`) and of triples
//! (cfg(parent), atom, cfg(child)) (`transitions`). They are measured for coverage/vacuity only,
//! never used to prune (DESIGN 1.3).

use std::collections::{BTreeMap, HashSet};
use std::hash::{Hash, Hasher};
use std::sync::atomic::{AtomicBool, AtomicU64, AtomicUsize, Ordering};
use std::sync::Mutex;
use std::time::Instant;

#[derive(Clone, Debug)]
pub struct Space {
    pub name: String,
    pub prefix: String,
    pub suffix: String,
    pub atoms: Vec<String>,
    pub max_len: usize,
    /// words shorter than this are not visited (used by product spaces whose shorter words
    /// are covered elsewhere)
    pub min_len: usize,
}

impl Space {
    pub fn new(name: &str, atoms: &[&str], max_len: usize) -> Space {
        Space {
            name: name.to_string(),
            prefix: String::new(),
            suffix: String::new(),
            atoms: atoms.iter().map(|s| (*s).to_string()).collect(),
            max_len,
            min_len: 0,
        }
    }
    pub fn seeded(name: &str, prefix: &str, suffix: &str, atoms: &[&str], max_len: usize) -> Space {
        let mut s = Space::new(name, atoms, max_len);
        s.prefix = prefix.to_string();
        s.suffix = suffix.to_string();
        s
    }
    pub fn size(&self) -> u64 {
        let k = self.atoms.len() as u64;
        (self.min_len..=self.max_len).map(|n| k.pow(n as u32)).sum()
    }
}

pub fn hash64<H: Hash + ?Sized>(h: &H) -> u64 {
    let mut s = std::collections::hash_map::DefaultHasher::new();
    h.hash(&mut s);
    s.finish()
}

/// One finding = one failed clause on one input.
#[derive(Clone, Debug)]
pub struct Finding {
    /// clause code + discriminator, e.g. `tiling.gap:MacroString`
    pub sig: String,
}

#[derive(Clone, Debug)]
pub struct FindingAgg {
    pub count: u64,
    pub witness: String,
    pub space: String,
}

/// Per-thread accumulator, merged at the end.
#[derive(Default)]
pub struct Local {
    pub evaluations: u64,
    pub lexer_runs: u64,
    pub nontrivial: u64,
    pub unobservable: u64,
    pub findings: BTreeMap<String, FindingAgg>,
    pub states: HashSet<u64>,
    pub transitions: HashSet<u64>,
    pub counters: BTreeMap<&'static str, u64>,
    pub maxima: BTreeMap<&'static str, (f64, String)>,
    pub samples: Vec<String>,
    pub nontrivial_samples: Vec<String>,
    pub space_name: String,
    /// union of the lexer's dispatch coverage bit sets (hook H6)
    pub cover: [u64; sas_lexer::verif::COVER_WORDS],
}

impl Local {
    pub fn cover(&mut self, v: &sas_lexer::verif::VerifInfo) {
        for (a, b) in self.cover.iter_mut().zip(v.dispatch_cover.iter()) {
            *a |= *b;
        }
    }
    pub fn count(&mut self, key: &'static str) {
        *self.counters.entry(key).or_insert(0) += 1;
    }
    pub fn add(&mut self, key: &'static str, n: u64) {
        *self.counters.entry(key).or_insert(0) += n;
    }
    pub fn maximum(&mut self, key: &'static str, v: f64, input: &str) {
        let e = self.maxima.entry(key).or_insert((f64::MIN, String::new()));
        if v > e.0 {
            let mut w: String = input.chars().take(60).collect();
            if w.len() < input.len() {
                w.push_str(&format!("...({} bytes)", input.len()));
            }
            *e = (v, w);
        }
    }
    pub fn finding(&mut self, sig: String, input: &str) {
        let sig = match crate::known::classify(&sig, input) {
            Some(id) => format!("KNOWN[{id}] {sig}"),
            None => sig,
        };
        let space = self.space_name.clone();
        let e = self.findings.entry(sig).or_insert_with(|| FindingAgg {
            count: 0,
            witness: input.to_string(),
            space,
        });
        e.count += 1;
        if (input.len(), input) < (e.witness.len(), e.witness.as_str()) {
            e.witness = input.to_string();
            e.space = self.space_name.clone();
        }
    }
    fn merge(&mut self, o: Local) {
        self.evaluations += o.evaluations;
        self.lexer_runs += o.lexer_runs;
        self.nontrivial += o.nontrivial;
        self.unobservable += o.unobservable;
        for (k, v) in o.findings {
            match self.findings.get_mut(&k) {
                None => {
                    self.findings.insert(k, v);
                }
                Some(e) => {
                    e.count += v.count;
                    if (v.witness.len(), v.witness.as_str()) < (e.witness.len(), e.witness.as_str())
                    {
                        e.witness = v.witness;
                        e.space = v.space;
                    }
                }
            }
        }
        self.states.extend(o.states);
        self.transitions.extend(o.transitions);
        for (a, b) in self.cover.iter_mut().zip(o.cover.iter()) {
            *a |= *b;
        }
        for (k, v) in o.counters {
            *self.counters.entry(k).or_insert(0) += v;
        }
        for (k, v) in o.maxima {
            let e = self.maxima.entry(k).or_insert((f64::MIN, String::new()));
            if v.0 > e.0 {
                *e = v;
            }
        }
        for s in o.samples {
            if self.samples.len() < 12 {
                self.samples.push(s);
            }
        }
        for s in o.nontrivial_samples {
            if self.nontrivial_samples.len() < 12 {
                self.nontrivial_samples.push(s);
            }
        }
    }
}

/// Exact-unless-collision filter for "distinct" counting: a bit table indexed by a 64-bit hash
/// of the input text. A hash collision makes a new input look already seen, i.e. the count
/// can only be too small.
pub struct Distinct {
    bits: Vec<AtomicU64>,
    mask: u64,
}

impl Distinct {
    pub fn new(log2_bits: u32) -> Distinct {
        let words = 1usize << (log2_bits - 6);
        let mut bits = Vec::with_capacity(words);
        bits.resize_with(words, || AtomicU64::new(0));
        Distinct {
            bits,
            mask: (1u64 << log2_bits) - 1,
        }
    }
    /// true if this text was not seen before
    pub fn first_time(&self, text: &str) -> bool {
        let h = hash64(text) & self.mask;
        let w = (h >> 6) as usize;
        let b = 1u64 << (h & 63);
        self.bits[w].fetch_or(b, Ordering::Relaxed) & b == 0
    }
}

pub struct Node<'a> {
    pub input: &'a str,
    pub space: &'a Space,
    pub atoms: &'a [u16],
}

/// What the visitor reports back for one node.
pub struct Visit {
    /// hash of the end-of-input configuration, if the lexer returned
    pub cfg: Option<u64>,
    /// the input is non-trivial by the property's rule
    pub nontrivial: bool,
}

pub struct SpaceReport {
    pub name: String,
    pub atoms: usize,
    pub prefix: String,
    pub suffix: String,
    pub max_len: usize,
    pub levels_completed: usize,
    pub inputs: u64,
    pub expected_inputs: u64,
    pub exhaustive: bool,
}

pub struct Report {
    pub total: Local,
    pub spaces: Vec<SpaceReport>,
    pub distinct_nontrivial: u64,
    pub capped: bool,
    pub wall_s: f64,
}

pub struct Explorer {
    pub threads: usize,
    /// the exploration budget; the clock starts with the first enumeration pass, so that building
    /// the input lists (which is not exploration and cannot be cut short) does not eat into it
    pub cap_s: Option<f64>,
    pub deadline: std::sync::OnceLock<Option<Instant>>,
    pub distinct: Distinct,
    pub distinct_nontrivial: AtomicU64,
    pub capped: AtomicBool,
}

fn decode(mut idx: u64, k: u64, n: usize, out: &mut Vec<u16>) {
    out.clear();
    out.resize(n, 0);
    // most significant digit first, so that enumeration order is lexicographic in atom order
    for i in (0..n).rev() {
        out[i] = (idx % k) as u16;
        idx /= k;
    }
}

impl Explorer {
    pub fn new(threads: usize, cap_s: Option<f64>, distinct_log2: u32) -> Explorer {
        Explorer {
            threads,
            cap_s,
            deadline: std::sync::OnceLock::new(),
            distinct: Distinct::new(distinct_log2),
            distinct_nontrivial: AtomicU64::new(0),
            capped: AtomicBool::new(false),
        }
    }

    fn armed(&self) -> Option<Instant> {
        *self.deadline.get_or_init(|| self.cap_s.map(|s| Instant::now() + std::time::Duration::from_secs_f64(s)))
    }

    fn past_deadline(&self) -> bool {
        self.armed().map_or(false, |d| Instant::now() >= d)
    }

    /// Enumerate all spaces completely (or until the deadline). `visit` must be deterministic.
    /// `cfg_of` computes the configuration hash of an arbitrary text (used for the parent of a
    /// chunk's first node; every other configuration comes from `visit`).
    pub fn run<V, C>(&self, spaces: &[Space], visit: V, cfg_of: C) -> Report
    where
        V: Fn(&mut Local, &Node) -> Visit + Sync,
        C: Fn(&str) -> Option<u64> + Sync,
    {
        let t0 = Instant::now();
        let mut total = Local::default();
        let mut reports = Vec::new();
        // smallest spaces first: if the exploration budget runs out, what is cut is the tail of
        // the largest enumeration, not a small targeted space that happened to be listed late
        let mut order: Vec<&Space> = spaces.iter().collect();
        order.sort_by_key(|s| (s.atoms.len() as u64).max(1).saturating_pow(s.max_len as u32));
        for space in order {
            let k = space.atoms.len() as u64;
            let mut levels_completed = 0usize;
            let mut inputs = 0u64;
            let mut complete = true;
            for n in 0..=space.max_len {
                if n < space.min_len {
                    levels_completed = n + 1;
                    continue;
                }
                if self.past_deadline() {
                    complete = false;
                    self.capped.store(true, Ordering::Relaxed);
                    break;
                }
                // Level n: parents are all words of length n-1 (for n = 0 the single empty
                // "parent" stands for the root itself).
                let parents: u64 = if n == 0 { 1 } else { k.pow((n - 1) as u32) };
                let chunk: u64 = if n <= 1 { 1 } else { 64.max(parents / (self.threads as u64 * 64)).min(4096) };
                let next = AtomicU64::new(0);
                let aborted = AtomicBool::new(false);
                let level_inputs = AtomicU64::new(0);
                let merged = Mutex::new(Local::default());
                let nthreads = if parents * k.max(1) < 64 { 1 } else { self.threads };
                std::thread::scope(|sc| {
                    for _ in 0..nthreads {
                        sc.spawn(|| {
                            let mut local = Local::default();
                            local.space_name = space.name.clone();
                            let mut word: Vec<u16> = Vec::new();
                            let mut buf = String::new();
                            let mut cnt = 0u64;
                            'outer: loop {
                                let start = next.fetch_add(chunk, Ordering::Relaxed);
                                if start >= parents {
                                    break;
                                }
                                if self.past_deadline() {
                                    aborted.store(true, Ordering::Relaxed);
                                    break;
                                }
                                let end = (start + chunk).min(parents);
                                for p in start..end {
                                    if n == 0 {
                                        buf.clear();
                                        buf.push_str(&space.prefix);
                                        buf.push_str(&space.suffix);
                                        let v = visit(
                                            &mut local,
                                            &Node { input: &buf, space, atoms: &[] },
                                        );
                                        self.account(&mut local, &buf, &v, None, None, space);
                                        cnt += 1;
                                        continue;
                                    }
                                    decode(p, k, n - 1, &mut word);
                                    buf.clear();
                                    buf.push_str(&space.prefix);
                                    for &a in &word {
                                        buf.push_str(&space.atoms[a as usize]);
                                    }
                                    let plen = buf.len();
                                    // configuration of the parent (transition source)
                                    let parent_cfg = if space.suffix.is_empty() {
                                        cfg_of(&buf)
                                    } else {
                                        None
                                    };
                                    word.push(0);
                                    for a in 0..space.atoms.len() {
                                        buf.truncate(plen);
                                        buf.push_str(&space.atoms[a]);
                                        buf.push_str(&space.suffix);
                                        *word.last_mut().unwrap() = a as u16;
                                        let v = visit(
                                            &mut local,
                                            &Node { input: &buf, space, atoms: &word },
                                        );
                                        self.account(
                                            &mut local,
                                            &buf,
                                            &v,
                                            parent_cfg,
                                            Some(&space.atoms[a]),
                                            space,
                                        );
                                        cnt += 1;
                                    }
                                    if (p & 0xff) == 0 && self.past_deadline() {
                                        aborted.store(true, Ordering::Relaxed);
                                        break 'outer;
                                    }
                                }
                            }
                            level_inputs.fetch_add(cnt, Ordering::Relaxed);
                            merged.lock().unwrap().merge(local);
                        });
                    }
                });
                total.merge(merged.into_inner().unwrap());
                inputs += level_inputs.load(Ordering::Relaxed);
                if aborted.load(Ordering::Relaxed) {
                    complete = false;
                    self.capped.store(true, Ordering::Relaxed);
                    break;
                }
                levels_completed = n + 1;
            }
            reports.push(SpaceReport {
                name: space.name.clone(),
                atoms: space.atoms.len(),
                prefix: space.prefix.clone(),
                suffix: space.suffix.clone(),
                max_len: space.max_len,
                levels_completed: levels_completed.saturating_sub(1),
                inputs,
                expected_inputs: space.size(),
                exhaustive: complete && inputs == space.size(),
            });
        }
        Report {
            total,
            spaces: reports,
            distinct_nontrivial: self.distinct_nontrivial.load(Ordering::Relaxed),
            capped: self.capped.load(Ordering::Relaxed),
            wall_s: t0.elapsed().as_secs_f64(),
        }
    }

    fn account(
        &self,
        local: &mut Local,
        input: &str,
        v: &Visit,
        parent_cfg: Option<u64>,
        atom: Option<&String>,
        _space: &Space,
    ) {
        local.evaluations += 1;
        if local.samples.len() < 3 && (local.evaluations % 977 == 1) {
            local.samples.push(input.to_string());
        }
        if let Some(c) = v.cfg {
            local.states.insert(c);
            if let (Some(p), Some(a)) = (parent_cfg, atom) {
                local.transitions.insert(hash64(&(p, a.as_str(), c)));
            }
        }
        if v.nontrivial {
            local.nontrivial += 1;
            if self.distinct.first_time(input) {
                self.distinct_nontrivial.fetch_add(1, Ordering::Relaxed);
                if local.nontrivial_samples.len() < 3 {
                    local.nontrivial_samples.push(input.to_string());
                }
            }
        }
    }

    /// Run a visitor over an explicit list of inputs (corpus truncations, generated programs).
    /// Items are produced by index through `make`, so nothing has to be materialised.
    pub fn run_list<M, V>(&self, name: &str, count: u64, make: M, visit: V) -> Report
    where
        M: Fn(u64, &mut String) + Sync,
        V: Fn(&mut Local, &str, u64) -> Visit + Sync,
    {
        let t0 = Instant::now();
        let next = AtomicU64::new(0);
        let done = AtomicU64::new(0);
        let aborted = AtomicBool::new(false);
        let merged = Mutex::new(Local::default());
        let chunk = 16u64.max(count / (self.threads as u64 * 256)).min(1024);
        let nthreads = if count < 64 { 1 } else { self.threads };
        let space = Space::new(name, &[], 0);
        std::thread::scope(|sc| {
            for _ in 0..nthreads {
                sc.spawn(|| {
                    let mut local = Local::default();
                    local.space_name = name.to_string();
                    let mut buf = String::new();
                    let mut cnt = 0u64;
                    loop {
                        let start = next.fetch_add(chunk, Ordering::Relaxed);
                        if start >= count {
                            break;
                        }
                        if self.past_deadline() {
                            aborted.store(true, Ordering::Relaxed);
                            break;
                        }
                        for i in start..(start + chunk).min(count) {
                            buf.clear();
                            make(i, &mut buf);
                            let v = visit(&mut local, &buf, i);
                            self.account(&mut local, &buf, &v, None, None, &space);
                            cnt += 1;
                        }
                    }
                    done.fetch_add(cnt, Ordering::Relaxed);
                    merged.lock().unwrap().merge(local);
                });
            }
        });
        let inputs = done.load(Ordering::Relaxed);
        let complete = !aborted.load(Ordering::Relaxed) && inputs == count;
        if !complete {
            self.capped.store(true, Ordering::Relaxed);
        }
        Report {
            total: merged.into_inner().unwrap(),
            spaces: vec![SpaceReport {
                name: name.to_string(),
                atoms: 0,
                prefix: String::new(),
                suffix: String::new(),
                max_len: 0,
                levels_completed: 0,
                inputs,
                expected_inputs: count,
                exhaustive: complete,
            }],
            distinct_nontrivial: self.distinct_nontrivial.load(Ordering::Relaxed),
            capped: self.capped.load(Ordering::Relaxed),
            wall_s: t0.elapsed().as_secs_f64(),
        }
    }
}

impl Report {
    pub fn absorb(&mut self, other: Report) {
        self.total.merge(other.total);
        self.spaces.extend(other.spaces);
        self.distinct_nontrivial = self.distinct_nontrivial.max(other.distinct_nontrivial);
        self.capped |= other.capped;
        self.wall_s += other.wall_s;
    }
    pub fn empty() -> Report {
        Report {
            total: Local::default(),
            spaces: vec![],
            distinct_nontrivial: 0,
            capped: false,
            wall_s: 0.0,
        }
    }
}

#[allow(dead_code)]
pub fn unused(_: AtomicUsize) {}

#!/usr/bin/env python3
"""Validate MANIFEST.json and evidence files against the task schemas (uses the tooling venv)."""
import json, sys, glob
import jsonschema
ok = True
m = json.load(open('/verif/MANIFEST.json')) if glob.glob('/verif/MANIFEST.json') else None
if m is not None:
    try:
        jsonschema.validate(m, json.load(open('/root/.vp/MANIFEST.schema.json')))
        print('MANIFEST ok,', len(m['checks']), 'checks')
    except Exception as e:
        ok = False; print('MANIFEST INVALID', e)
s = json.load(open('/root/.vp/EVIDENCE.schema.json'))
for f in sorted(glob.glob('/verif/evidence/*.json')):
    try:
        jsonschema.validate(json.load(open(f)), s); print(f, 'ok')
    except Exception as e:
        ok = False; print(f, 'INVALID', str(e)[:300])
sys.exit(0 if ok else 1)

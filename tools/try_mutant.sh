#!/bin/bash
# usage: try_mutant.sh <patch.diff> <prop> [<prop>...]   (env SKIP_SUITE=1 to skip the repo suite)
# Applies the patch to /repo's working tree, runs the repository suite and the quick checks of the
# given properties, prints one summary line per step, and always reverts /repo afterwards.
set -u
patch="$1"; shift
cd /repo || exit 2
if ! git diff --quiet; then echo "REPO DIRTY - abort"; exit 2; fi
if ! git apply --check "$patch" 2>/dev/null; then echo "PATCH DOES NOT APPLY: $patch"; exit 2; fi
git apply "$patch"
trap 'cd /repo && git checkout -q -- . && git clean -fdq crates src 2>/dev/null; (cd /verif/engine && CARGO_TARGET_DIR=/verif/target/dbg-sep cargo build --offline --profile dbg >/dev/null 2>&1)' EXIT
if [ -z "${SKIP_SUITE:-}" ]; then
  out=$(cargo nextest run --workspace --no-fail-fast --offline --test-threads 8 2>&1 | grep -E "Summary|^error" | head -2)
  echo "SUITE: $out"
fi
cd /verif
# does the change alter any observable result on the broad quick spaces? (triage aid: an
# undetected mutant with identical digests is behaviourally equivalent on the explored spaces)
if [ -f /verif/target/baseline_digest_quick.txt ]; then
  (cd /verif/engine && CARGO_TARGET_DIR=/verif/target/dbg-sep cargo build --offline --profile dbg >/dev/null 2>&1)
  /verif/target/dbg-sep/dbg/lexmc digest --spaces S1,S2,S3,S4,S5,S7,S8,S9,seeded --tier quick --out /tmp/mut_digest.txt >/dev/null 2>&1
  nd=$(diff <(cut -f1-4 /verif/target/baseline_digest_quick.txt) <(cut -f1-4 /tmp/mut_digest.txt) | grep -c '^>')
  echo "BEHAVIOUR: $nd of $(wc -l < /tmp/mut_digest.txt) digest chunks differ from the clean tree (dbg-sep, quick spaces)"
fi
for p in "$@"; do
  out=$(./check "$p" ${TIER:-quick} 2>&1)
  rc=$?
  nv=$(echo "$out" | grep -c "^VIOLATION")
  echo "CHECK $p rc=$rc violations=$nv"
  echo "$out" | grep -A1 "^VIOLATION" | grep "clause:" | head -${SHOW:-4} | cut -c1-260
  echo "$out" | grep "MACHINERY" | head -2 | cut -c1-300
done

#!/bin/bash
# usage: save_seed.sh <seed-id> <worktree> <property> <demo-name> "<needs>" "<caught-by summary>"
id="$1"; wt="$2"; prop="$3"; demo="$4"; needs="$5"; caught="$6"
d=/verif/seeded/$id; mkdir -p $d
cp $wt/patch.diff $d/patch.diff
cp -r $wt/demo $d/ 2>/dev/null; mkdir -p $d/demo
[ -f $wt/crates/sas-lexer/tests/$demo.rs ] && cp $wt/crates/sas-lexer/tests/$demo.rs $d/demo/ 2>/dev/null
python3 - "$id" "$prop" "$demo" "$needs" "$caught" <<'PY'
import json,sys
id,prop,demo,needs,caught=sys.argv[1:6]
json.dump({"id":id,"breaks_property":prop,"source":"independent sub-agent given only the property text and a scratch worktree",
 "needs_to_manifest":needs,
 "what_i_ran":[f"git -C /repo apply seeded/{id}/patch.diff; cargo nextest run --workspace --offline (2152 pass); ./check {prop} quick; git -C /repo checkout -- .",
               f"tools/confirm_seed.sh <scratch worktree> {demo}  (demonstration fails with the change, passes without)"],
 "detected_by":caught},open(f"/verif/seeded/{id}/meta.json","w"),indent=1)
PY
echo saved $d

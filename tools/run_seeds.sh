#!/bin/bash
# Regression over all seeded changes: each seeded/<id>/patch.diff is applied to an isolated scratch
# copy of the repository, the quick check of the property it breaks is run, and the outcome is
# printed as one line per seed. Exit 0 iff every seed is detected.
cd /verif
rc=0
for d in seeded/*/; do
  id=$(basename $d)
  prop=$(python3 -c "import json;print(json.load(open('$d/meta.json'))['breaks_property'])")
  out=$(SKIP_SUITE=1 SHOW=1 ./tools/try_mutant_iso.sh /verif/$d/patch.diff $prop 2>&1)
  line=$(echo "$out" | grep "^CHECK $prop")
  case "$line" in
    *"rc=1"*) echo "DETECTED   $id  ($line)";;
    *) echo "NOT-DETECTED $id ($line)"; rc=1;;
  esac
done
exit $rc

#!/usr/bin/env python3
"""Regenerates the seed table of DESIGN.md section 11 from seeded/*/meta.json (between the markers)."""
import json, glob, os, re
rows = []
for d in sorted(glob.glob('/verif/seeded/*/')):
    m = json.load(open(d + 'meta.json'))
    det = m['detected_by'].replace('|', '\\|').replace('\n', ' ')
    needs = m['needs_to_manifest'].replace('|', '\\|').replace('\n', ' ')
    first = 'missed, then caught after strengthening' if 'MISSED' in det else 'caught'
    rows.append(f"| `{m['id']}` | {m['breaks_property']} | {needs} | {first} | {det} |")
head = "| seed | property | needs, in order to manifest | first attempt | detected by |\n|------|----------|-----------------------------|---------------|-------------|\n"
table = "<!-- seed-table-begin -->\n" + head + "\n".join(rows) + "\n<!-- seed-table-end -->"
p = '/verif/DESIGN.md'
s = open(p).read()
if '<!-- seed-table-begin -->' in s:
    s = re.sub(r'<!-- seed-table-begin -->.*?<!-- seed-table-end -->', lambda _: table, s, flags=re.S)
else:
    i = s.index('| seed | property | needs')
    j = s.index('### 11.1')
    s = s[:i] + table + "\n\n" + s[j:]
open(p, 'w').write(s)
missed = sum('missed' in r.split('|')[4] for r in rows)
print(len(rows), 'seeds;', missed, 'missed first')

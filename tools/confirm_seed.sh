#!/bin/bash
# usage: confirm_seed.sh <worktree> <demo test name> [extra cargo args]
# Confirms in the scratch worktree that the demonstration fails with patch.diff applied and passes without.
wt="$1"; demo="$2"; shift 2
cd "$wt" || exit 2
git checkout -q -- crates src 2>/dev/null
git apply patch.diff || { echo "patch does not apply"; exit 2; }
CARGO_TARGET_DIR=$wt/target cargo test -p sas-lexer --test "$demo" --offline "$@" > $wt/confirm_with.txt 2>&1; rc_with=$?
git apply -R patch.diff
CARGO_TARGET_DIR=$wt/target cargo test -p sas-lexer --test "$demo" --offline "$@" > $wt/confirm_without.txt 2>&1; rc_without=$?
echo "WITH change: rc=$rc_with $(grep -E '^test result' $wt/confirm_with.txt | head -1)"
echo "WITHOUT change: rc=$rc_without $(grep -E '^test result' $wt/confirm_without.txt | head -1)"
[ $rc_with -ne 0 ] && [ $rc_without -eq 0 ] && echo CONFIRMED || echo NOT-CONFIRMED

#!/bin/bash
# Like try_mutant.sh, but fully isolated from /repo and /verif/target: works on a scratch worktree of
# /repo and a scratch copy of the engine whose path dependency points at that worktree. For use while
# a background run is reading /repo. usage: try_mutant_iso.sh <patch.diff> <prop> [<prop>...]
set -u
patch="$1"; shift
ISO=${ISO_DIR:-/tmp/mutiso}
if [ ! -d $ISO/repo ]; then
  mkdir -p $ISO
  git -C /repo worktree add --detach $ISO/repo HEAD -q || exit 2
fi
cd $ISO/repo && git checkout -q --detach $(git -C /repo rev-parse HEAD) && git checkout -q -- . && git clean -fdq crates src
rm -rf $ISO/engine && mkdir -p $ISO/engine && cp -r /verif/engine/src /verif/engine/Cargo.toml /verif/engine/Cargo.lock /verif/engine/.cargo $ISO/engine/
sed -i "s#/repo/crates/sas-lexer#$ISO/repo/crates/sas-lexer#" $ISO/engine/Cargo.toml
if ! git apply --check "$patch" 2>/dev/null; then echo "PATCH DOES NOT APPLY: $patch"; exit 2; fi
git apply "$patch"
export VERIF_REPO=$ISO/repo VERIF_ENGINE_DIR=$ISO/engine VERIF_TARGET_DIR=$ISO/target VERIF_EVIDENCE_DIR=$ISO/evidence VERIF_REPLAYS_DIR=$ISO/replays
if [ -z "${SKIP_SUITE:-}" ]; then
  out=$(CARGO_TARGET_DIR=$ISO/repo-target cargo nextest run --workspace --no-fail-fast --offline --test-threads 8 2>&1 | grep -E "Summary|^error" | head -2)
  echo "SUITE: $out"
fi
cd /verif
for p in "$@"; do
  out=$(./check "$p" ${TIER:-quick} 2>&1)
  rc=$?
  nv=$(echo "$out" | grep -c "^VIOLATION")
  echo "CHECK $p rc=$rc violations=$nv"
  echo "$out" | grep -A1 "^VIOLATION" | grep "clause:" | head -${SHOW:-4} | cut -c1-260
  echo "$out" | grep "MACHINERY" | head -2 | cut -c1-300
done
cd $ISO/repo && git checkout -q -- . && git clean -fdq crates src

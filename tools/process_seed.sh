#!/bin/bash
# usage: process_seed.sh <dir with wt/> <prop> [demo-name] [extra cargo args for the demo]
# confirms the demonstration (fails with / passes without), runs the suite on the changed tree in an
# isolated copy and then the quick check of the property; writes <dir>/RESULT.txt
d="$1"; prop="$2"; demo="${3:-demo_$(echo $prop | tr A-Z a-z)}"; shift; shift; [ $# -gt 0 ] && shift
wt=$d/wt
{
  if [ -f $wt/crates/sas-lexer/tests/$demo.rs ]; then
    cp $wt/crates/sas-lexer/tests/$demo.rs /tmp/$$.demo.rs
    (cd $wt && git checkout -q -- crates src 2>/dev/null; cp /tmp/$$.demo.rs crates/sas-lexer/tests/$demo.rs)
    /verif/tools/confirm_seed.sh $wt $demo "$@"
    rm -f /tmp/$$.demo.rs
  else
    echo "NO RUST DEMO ($demo) - confirm by hand"
  fi
  ISO_DIR=${ISO_DIR:-/tmp/mutiso_$prop} /verif/tools/try_mutant_iso.sh $wt/patch.diff ${CHECKS:-$prop}
} > $d/RESULT.txt 2>&1
cat $d/RESULT.txt

#!/usr/bin/env python3
"""Systematic single-site mutation scan of the lexer sources (a tool for finding coverage gaps of the
checks, not a registered check).

  mutscan.py gen                      list the mutants (JSON lines) on stdout
  mutscan.py suite LANE K N           phase 1 for mutants i with i % N == K: apply to the lane's worktree,
                                      run the repository's suite; survivors are appended to survivors.jsonl
  mutscan.py checks                   phase 2: for every survivor not yet judged, run digest comparison and the
                                      quick checks (dbg-sep only, in an isolated lane) until one reports a VIOLATION

Everything lives under $MUTSCAN_DIR (default /tmp/mutscan); nothing is written to /repo or /verif.
"""
import json, os, re, subprocess, sys, hashlib, random, time, shutil, fcntl

ROOT = os.environ.get("MUTSCAN_DIR", "/tmp/mutscan")
SRC = "crates/sas-lexer/src/lexer"
FILES = ["mod.rs", "cursor.rs", "buffer.rs", "hex.rs", "lexer_mode.rs", "macro.rs", "numeric.rs", "sas_lang.rs", "text.rs"]


def code_lines(path):
    """yield (lineno, line) of lines that are live non-test, non-hook code"""
    lines = open(path, encoding="utf-8").read().split("\n")
    skip_depth = None
    depth = 0
    pending_skip = False
    for i, l in enumerate(lines):
        s = l.strip()
        if s.startswith("#[cfg(test)]") or s.startswith("#[cfg(sas_lexer_verif)]") or s.startswith("#[cfg(debug_assertions)]"):
            pending_skip = True
            continue
        opens = l.count("{") - l.count("}")
        if pending_skip and skip_depth is None:
            if "{" in l and opens > 0:
                skip_depth = depth
                depth += opens
                pending_skip = False
                continue
            if s.endswith(";") or s.endswith(","):
                pending_skip = False  # single guarded statement / field
                depth += opens
                continue
            if s.startswith("#["):
                continue
            # e.g. a guarded `mod tests;` or a one-line item
            depth += opens
            if opens == 0 and not s.endswith("{"):
                pending_skip = False if s.endswith(";") else pending_skip
            continue
        depth += opens
        if skip_depth is not None:
            if depth <= skip_depth:
                skip_depth = None
            continue
        if not s or s.startswith("//") or s.startswith("#[") or "debug_assert" in s or s.startswith("use ") or "unreachable!" in s:
            continue
        yield i, l


def strip_comment(l):
    # crude: cut at ' //' outside of char/string literals is hard; only cut when no quote follows
    k = l.find(" //")
    if k >= 0 and "'" not in l[k:] and '"' not in l[k:]:
        return l[:k], l[k:]
    return l, ""


BIN = [(" == ", " != "), (" != ", " == "), (" < ", " <= "), (" <= ", " < "), (" > ", " >= "), (" >= ", " > "),
       (" && ", " || "), (" || ", " && "), (" + 1", " + 2"), (" - 1", " - 0"), (" + 1", " + 0"), (" += 1", " += 2")]


def gen():
    out = []
    for f in FILES:
        p = os.path.join("/repo", SRC, f)
        for i, l in code_lines(p):
            code, com = strip_comment(l)
            cands = []
            for a, b in BIN:
                start = 0
                while True:
                    k = code.find(a, start)
                    if k < 0:
                        break
                    start = k + len(a)
                    if a in (" < ", " > ") and ("->" in code[max(0, k - 2):k + 3] or "=>" in code[max(0, k - 2):k + 4]):
                        continue
                    cands.append((f"{a.strip()}→{b.strip()}", code[:k] + b + code[k + len(a):]))
            for m in re.finditer(r"\b(true|false)\b", code):
                w = "false" if m.group(1) == "true" else "true"
                cands.append((f"{m.group(1)}→{w}", code[:m.start()] + w + code[m.end():]))
            for m in re.finditer(r"(?<![A-Za-z0-9_)\]])!(?=(self|matches!|[a-z_]+[.(]))", code):
                cands.append(("drop!", code[:m.start()] + code[m.end():]))
            if re.match(r"^\s+self\.[A-Za-z_.]+\([^;]*\);\s*$", code):
                cands.append(("delstmt", re.match(r"^\s*", code).group(0) + "{}"))
            # alternatives of a pattern: 'x' |
            for m in re.finditer(r"('(?:\\.|\\u\{[0-9A-Fa-f]+\}|[^'\\])') \| ", code):
                cands.append((f"dropalt{m.group(1)}", code[:m.start()] + code[m.end():]))
            for m in re.finditer(r" \| ('(?:\\.|\\u\{[0-9A-Fa-f]+\}|[^'\\])')(?= =>| \)|\)| if )", code):
                cands.append((f"dropalt{m.group(1)}", code[:m.start()] + code[m.end():]))
            # enum alternatives in patterns:  A::B | A::C
            for m in re.finditer(r"([A-Z][A-Za-z]+::[A-Za-z]+(?:\([^()|]*\))?) \| ", code):
                cands.append((f"dropalt:{m.group(1)}", code[:m.start()] + code[m.end():]))
            for m in re.finditer(r"(?<![A-Za-z0-9_.'\"])([2-9]|[1-9][0-9]+)(?![A-Za-z0-9_.'\"])", code):
                n = int(m.group(1))
                cands.append((f"{n}→{n - 1}", code[:m.start()] + str(n - 1) + code[m.end():]))
            seen = set()
            for k, (op, new) in enumerate(cands):
                if new == code or new in seen:
                    continue
                seen.add(new)
                out.append({"id": f"{f}:{i + 1}:{op}:{k}", "file": f, "line": i, "old": l, "new": new + com, "op": op})
    return out


def sh(cmd, **kw):
    return subprocess.run(cmd, shell=isinstance(cmd, str), stdout=subprocess.PIPE, stderr=subprocess.STDOUT, text=True, **kw)


def lane_dir(lane):
    d = os.path.join(ROOT, f"lane{lane}")
    if not os.path.isdir(d):
        os.makedirs(ROOT, exist_ok=True)
        subprocess.check_call(["git", "-C", "/repo", "worktree", "add", "--detach", "-q", d, "HEAD"])
    return d


def apply(lane_d, m):
    p = os.path.join(lane_d, SRC, m["file"])
    lines = open(p, encoding="utf-8").read().split("\n")
    assert lines[m["line"]] == m["old"], (m["id"], lines[m["line"]], m["old"])
    lines[m["line"]] = m["new"]
    open(p, "w", encoding="utf-8").write("\n".join(lines))


def revert(lane_d):
    subprocess.check_call(["git", "-C", lane_d, "checkout", "-q", "--", "."])


def append(path, rec):
    with open(path, "a") as f:
        fcntl.flock(f, fcntl.LOCK_EX)
        f.write(json.dumps(rec, ensure_ascii=False) + "\n")


def done_ids(path):
    try:
        return {json.loads(l)["id"] for l in open(path)}
    except FileNotFoundError:
        return set()


def order(ms):
    r = random.Random(20261005)
    ms = sorted(ms, key=lambda m: m["id"])
    r.shuffle(ms)
    return ms


def suite(lane, k, n):
    d = lane_dir(lane)
    revert(d)
    ms = order(gen())
    res = os.path.join(ROOT, "suite_results.jsonl")
    surv = os.path.join(ROOT, "survivors.jsonl")
    done = done_ids(res)
    env = dict(os.environ, CARGO_TARGET_DIR=os.path.join(d, "target"), CARGO_NET_OFFLINE="true")
    limit = int(os.environ.get("MUTSCAN_LIMIT", "1000000"))
    for idx, m in enumerate(ms[:limit]):
        if idx % n != k or m["id"] in done:
            continue
        apply(d, m)
        t0 = time.time()
        try:
            p = subprocess.run(["cargo", "nextest", "run", "--workspace", "--offline", "--test-threads", "5"], cwd=d, env=env,
                               stdout=subprocess.PIPE, stderr=subprocess.STDOUT, text=True, timeout=400)
            out = p.stdout
            if p.returncode == 0 and "2152 passed" in out:
                verdict = "survived"
            elif "error: could not compile" in out or "error[" in out:
                verdict = "nocompile"
            else:
                verdict = "killed"
        except subprocess.TimeoutExpired:
            sh("pkill -f " + os.path.join(d, "target"))
            verdict = "killed-timeout"
        revert(d)
        rec = {"id": m["id"], "verdict": verdict, "secs": round(time.time() - t0, 1)}
        append(res, rec)
        if verdict == "survived":
            append(surv, m)
        print(rec, flush=True)


P2 = "p2"
OWN_SPACE = ["C11", "C14", "C08", "C16", "C12", "C13"]
ALL = ["C02", "C11", "C12", "C09", "C10", "C06", "C07", "C13", "C14", "C16", "C08", "C03", "C04", "C05", "C17", "C15", "C01"]
DIGEST_SPACES = "S1,S2,S3,S4,S5,S7,S8,S9,seeded"


def p2_env(d):
    iso = os.path.join(ROOT, P2)
    return dict(os.environ, VERIF_REPO=d, VERIF_ENGINE_DIR=os.path.join(iso, "engine"), VERIF_TARGET_DIR=os.path.join(iso, "target"),
                VERIF_EVIDENCE_DIR=os.path.join(iso, "evidence"), VERIF_REPLAYS_DIR=os.path.join(iso, "replays"))


def p2_setup():
    d = lane_dir(P2 + "w")
    iso = os.path.join(ROOT, P2)
    eng = os.path.join(iso, "engine")
    shutil.rmtree(eng, ignore_errors=True)
    os.makedirs(eng, exist_ok=True)
    for x in ("src", "Cargo.toml", "Cargo.lock", ".cargo"):
        s = os.path.join("/verif/engine", x)
        (shutil.copytree if os.path.isdir(s) else shutil.copy)(s, os.path.join(eng, x))
    t = open(os.path.join(eng, "Cargo.toml")).read().replace("/repo/crates/sas-lexer", d + "/crates/sas-lexer")
    open(os.path.join(eng, "Cargo.toml"), "w").write(t)
    for x in ("evidence", "replays", "target"):
        os.makedirs(os.path.join(iso, x), exist_ok=True)
    return d


def digests(d, tag):
    env = p2_env(d)
    iso = os.path.join(ROOT, P2)
    binary = os.path.join(iso, "target", "dbg-sep", "dbg", "lexmc")
    # build through the driver so that the variant is exactly the one the checks use
    p = sh(["/verif/check", "build", "dbg-sep"], env=env, cwd="/verif")
    if not os.path.exists(binary):
        cands = sh(f"find {iso}/target/dbg-sep -maxdepth 3 -name lexmc -type f").stdout.split()
        binary = cands[0] if cands else binary
    out = os.path.join(iso, f"digest_{tag}.txt")
    try:
        p = sh([binary, "digest", "--spaces", DIGEST_SPACES, "--tier", "quick", "--out", out], timeout=300)
    except subprocess.TimeoutExpired:
        return None  # a mutant that makes the lexer loop: certainly a behaviour change
    if p.returncode != 0:
        return None
    lst = os.path.join(iso, "list.json")
    if not os.path.exists(lst):
        xs = json.loads(subprocess.run([binary, "scale-inputs"], stdout=subprocess.PIPE, text=True).stdout)
        try:
            ts = json.load(open("/verif/target/teststrings.json"))
        except Exception:
            ts = []
        json.dump(xs + ts, open(lst, "w"))
    try:
        p2 = sh([binary, "digest-list", "--inputs", lst], timeout=300)
    except subprocess.TimeoutExpired:
        return None
    h = hashlib.sha1(open(out, "rb").read() + "\n".join(l for l in p2.stdout.split("\n") if l.startswith("D:")).encode()).hexdigest()
    return h


def checks(k=0, n=1):
    """phase 2 for survivors i with i % n == k. Pass 1: digest classification of every survivor;
    pass 2: the quick checks for those whose digest differs, until one reports a violation;
    pass 3 (file SAME_TOO present): the own-space checks for the same-digest ones."""
    global P2
    P2 = f"p2{k}"
    d = p2_setup()
    revert(d)
    env = p2_env(d)
    res = os.path.join(ROOT, "check_results.jsonl")
    cls = os.path.join(ROOT, "digest_class.jsonl")
    base = digests(d, "base")
    print("baseline digest", base, flush=True)
    assert base

    def survivors():
        try:
            todo = [json.loads(l) for l in open(os.path.join(ROOT, "survivors.jsonl"))]
        except FileNotFoundError:
            todo = []
        return [m for i, m in enumerate(todo) if i % n == k]

    def run_checks(m, props, same):
        revert(d)
        apply(d, m)
        t0 = time.time()
        detected = None
        tried = []
        for prop in props:
            p = sh(["/verif/check", prop, "quick"], env=env, cwd="/verif")
            tried.append(prop)
            if p.returncode == 1 and "VIOLATION" in p.stdout:
                cl = [l for l in p.stdout.split("\n") if "clause:" in l]
                detected = {"prop": prop, "clause": (cl[0].strip()[:200] if cl else "")}
                break
            if p.returncode not in (0, 1):
                detected = {"prop": prop, "machinery": p.stdout[-300:]}
                break
        revert(d)
        rec = {"id": m["id"], "old": m["old"].strip(), "new": m["new"].strip(), "same_digest": same, "detected": detected, "tried": tried, "secs": round(time.time() - t0, 1)}
        append(res, rec)
        print(rec, flush=True)

    while True:
        progressed = False
        classified = {}
        try:
            for l in open(cls):
                x = json.loads(l)
                classified[x["id"]] = x["same"]
        except FileNotFoundError:
            pass
        done = done_ids(res)
        for m in survivors():
            if m["id"] not in classified:
                revert(d)
                apply(d, m)
                dg = digests(d, "mut")
                revert(d)
                classified[m["id"]] = dg == base
                append(cls, {"id": m["id"], "same": dg == base, "ok": dg is not None})
                print("class", m["id"], dg == base, flush=True)
                progressed = True
            if m["id"] not in done and classified.get(m["id"]) is False:
                run_checks(m, ALL, False)
                progressed = True
        if os.path.exists(os.path.join(ROOT, "SAME_TOO")):
            done = done_ids(res)
            for m in survivors():
                if m["id"] not in done and classified.get(m["id"]) is True:
                    run_checks(m, OWN_SPACE, True)
                    progressed = True
        if not progressed:
            if os.path.exists(os.path.join(ROOT, "STOP")):
                return
            time.sleep(30)


if __name__ == "__main__":
    cmd = sys.argv[1]
    if cmd == "gen":
        ms = gen()
        for m in ms:
            print(json.dumps(m, ensure_ascii=False))
        print(len(ms), "mutants", file=sys.stderr)
    elif cmd == "suite":
        suite(sys.argv[2], int(sys.argv[3]), int(sys.argv[4]))
    elif cmd == "checks":
        checks(int(sys.argv[2]) if len(sys.argv) > 2 else 0, int(sys.argv[3]) if len(sys.argv) > 3 else 1)

#!/bin/bash
# Ad-hoc vacuity guard (not a registered check): line coverage of the lexer sources reached by the
# quick-tier explorations, measured with -C instrument-coverage on the nightly toolchain.
# usage: tools/coverage.sh [props...]   (scratch under /tmp/cov, removed at the end unless KEEP=1)
set -u
props=${@:-C01 C07 C08 C11 C12 C13 C14 C15 C16 C17}
S=/tmp/cov; mkdir -p $S; rm -f $S/*.profraw
B=$(dirname $(find ~/.rustup/toolchains/nightly-x86_64-unknown-linux-gnu -name llvm-cov | head -1))
(cd /verif/engine && LLVM_PROFILE_FILE=$S/build_%p.profraw RUSTFLAGS="--cfg sas_lexer_verif -C instrument-coverage" CARGO_TARGET_DIR=$S/target cargo +nightly build --offline --profile dbg 2>&1 | tail -1)
[ -d /verif/target/corpus ] || (cd /verif && ./check setup >/dev/null 2>&1)
for p in $props; do
  LLVM_PROFILE_FILE=$S/$p.profraw $S/target/dbg/lexmc run --property $p --tier quick --out $S/r_$p.json --corpus /verif/target/corpus --known /verif/known_findings.json --cap-s ${CAP:-300} --build-name cov 2>&1 | tail -1 | cut -c1-160
done
rm -f $S/build_*.profraw; $B/llvm-profdata merge -sparse $S/*.profraw -o $S/all.profdata
$B/llvm-cov report $S/target/dbg/lexmc -instr-profile=$S/all.profdata --sources /repo/crates/sas-lexer/src 2>&1 | tail -16 | cut -c1-60,100-175
src=/repo/crates/sas-lexer/src/lexer
$B/llvm-cov show $S/target/dbg/lexmc -instr-profile=$S/all.profdata --sources $src/mod.rs $src/numeric.rs $src/macro.rs $src/cursor.rs $src/hex.rs $src/text.rs $src/lexer_mode.rs > $S/show.txt 2>&1
python3 - <<'PY'
import re
cur=None; prev=None
for l in open('/tmp/cov/show.txt'):
    if l.startswith('/repo/'): cur=l.strip().rstrip(':').split('/')[-1]; continue
    m=re.match(r'\s+(\d+)\|\s+0\|(.*)',l)
    if m:
        n=int(m.group(1)); t=m.group(2)
        if not(prev and prev==(cur,n-1)): print(f"{cur}:{n}: {t.strip()[:110]}")
        prev=(cur,n)
PY
[ -n "${KEEP:-}" ] || rm -rf $S

#!/usr/bin/env python3
"""Summarise the files the mutation scan left under $MUTSCAN_DIR into tools/mutscan_results.md"""
import json, os, collections
R = os.environ.get("MUTSCAN_DIR", "/tmp/mutscan")
if not os.path.isdir(R):
    R = "/verif/tools/mutscan_data"  # the files kept from the run of 2026-10-05
def rd(n):
    try:
        return [json.loads(l) for l in open(os.path.join(R, n))]
    except FileNotFoundError:
        return []
suite, surv, cls, chk = rd("suite_results.jsonl"), rd("survivors.jsonl"), rd("digest_class.jsonl"), rd("check_results.jsonl")
sv = {m["id"]: m for m in surv}
out = ["# Mutation scan (tools/mutscan.py): results of the run of 2026-10-05", ""]
c = collections.Counter(x["verdict"] for x in suite)
out.append(f"Phase 1 (repository suite): {len(suite)} mutants - " + ", ".join(f"{v} {k}" for k, v in c.most_common()) + ".")
same = [x for x in cls if x["same"]]
diff = [x for x in cls if not x["same"]]
out.append(f"Phase 2 reached {len(cls)} of the {len(surv)} survivors before the session ended (the machine was shared with a thorough run of all checks and the sub-agent rounds): {len(same)} with the same digest on all alphabet spaces and the long-input list, {len(diff)} with a different one.")
det = [x for x in chk if x["detected"] and "prop" in x["detected"] and "machinery" not in x["detected"]]
mach = [x for x in chk if x["detected"] and "machinery" in x["detected"]]
und = [x for x in chk if not x["detected"] and not x["same_digest"]]
out.append(f"Of the {len([x for x in chk if not x['same_digest']])} different-digest mutants taken through the quick checks: {len(det)} reported by a check (" + ", ".join(f"{k} {v}" for k, v in collections.Counter(x['detected']['prop'] for x in det).most_common()) + f"), {len(mach)} stopped by the hang watchdog (a lexer loop: C01's finding), {len(und)} not reported.")
out += ["", "## Different digest, not reported by the engine version of the time (each read by hand; disposition in DESIGN 11.0)", ""]
DISP = {
    "mod.rs:1041:false→true:0": "GAP (closed): `;` ends a later argument of the function in %sysfunc; G13 only had `;` as text in the first argument. Now C13 masked.is-a-delimiter:SEMI.",
    "mod.rs:5280:delstmt:0": "GAP (closed): the blank after the `(` of `%do %while(` joins the operand; G13 never varied the edges of an expression. Now C13 operand.not-an-integer / gap.not-hidden.",
    "mod.rs:5362:delstmt:0": "GAP (closed): the same for the first argument of %syscall; %syscall was no expression host of G13. Now C13.",
    "mod.rs:4562:true→false:0": "outside the properties: whether `;` ends the start value of `%do %m=1;` (no %to: no well-formed reading).",
    "mod.rs:1040:false→true:0": "outside the properties: whether a macro statement keyword ends a later argument of %sysfunc's function (erroneous input only).",
    "mod.rs:5273:false→true:0": "outside the properties: the same for the condition of `%do %while(`.",
    "mod.rs:5356:false→true:0": "outside the properties: the same for the arguments of %syscall.",
    "mod.rs:1758:false→true:0": "outside the properties: a macro statement inside a quoted literal in statement options loses its OpenCodeRecursionError (erroneous input; no property demands the error).",
    "mod.rs:5317:delstmt:0": "outside the properties: the `;` of %let is consumed by the default mode instead of ExpectSemiOrEOF (same tokens; differs in the end-of-input semicolon and in the statement-pending flag of a %let in the middle of an open-code statement).",
    "mod.rs:4655:delstmt:0": "outside the properties: the same for %local / %global variable lists.",
    "mod.rs:4893:delstmt:0": "outside the properties: the same for the `;` after a %to / %by bound (the unchanged lexer does not diagnose a missing `;` there either).",
    "mod.rs:2604:delstmt:0": "outside the properties: recovery after an invalid macro parameter name (erroneous input).",
    "mod.rs:2879:false→true:1": "outside the properties: `%=` inside %str text splits the text token in two (same characters, same payload).",
}
for x in und:
    out.append(f"* `{x['id']}`: `{x['old'][:100]}` -> `{x['new'][:100]}` - {DISP.get(x['id'], 'not yet read')}")
out += ["", "## Same digest (equivalent on every explored input, or code of another build configuration)", ""]
for x in same:
    m = sv.get(x["id"], {})
    out.append(f"* `{x['id']}`: `{m.get('old','').strip()[:100]}` -> `{m.get('new','').strip()[:80]}`")
out += ["", "## Reported", ""]
for x in det:
    out.append(f"* `{x['id']}` - {x['detected']['prop']}: {x['detected'].get('clause','')[8:160]}")
open("/verif/tools/mutscan_results.md", "w").write("\n".join(out) + "\n")
print("\n".join(out[:8]))
